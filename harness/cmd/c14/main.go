// C14: fault-injection parameters hit exactly the scheduled requests.
//
// L1 (public boundary): media-segment requests through the /livesim2 handler with statuscode_ and
// traffic_ in the URL, the same requests without the parameter as baseline, the BaseURL elements of
// the MPD.  L2: calcStatusCode on synthetic segment tables (hook VerifC14CalcStatusCode) and
// CreateLossItvls/CycleDurS/StateAt through the exported API.
// Oracle: the property text - per cycle the one request that must be hit is enumerated from the
// harness's own segment table, every other request must be answered exactly as without the parameter;
// a BaseURL is up/404/slow/hanging as the flattened interval sequence says at (second mod cycle).
package main

import (
	"bytes"
	"encoding/xml"
	"fmt"
	"hash/crc64"
	"io"
	"math"
	"math/big"
	"math/rand"
	"os"
	"path/filepath"
	"regexp"
	"runtime"
	"runtime/pprof"
	"sort"
	"strconv"
	"strings"
	"sync"
	"time"

	"github.com/Dash-Industry-Forum/livesim2/cmd/livesim2/app"
	"github.com/Eyevinn/mp4ff/mp4"

	"verifharness/lib"
)

func main() { lib.Main("C14", run) }

type codeSpec struct {
	Cycle int64  `json:"cycle"`
	Rsq   int64  `json:"rsq"`
	Code  int64  `json:"code"`
	Rep   string `json:"rep,omitempty"` // "": not in the URL
}

type c14in struct {
	Kind   string `json:"kind"`   // status | calc | traffic | loss | base
	Domain string `json:"domain"` // ok | start | snr | short-cycle | wrap-cycle | empty-pattern
	// status, calc
	Asset     string      `json:"asset,omitempty"`
	Rep       string      `json:"rep,omitempty"`
	Cfg       *lib.TLCfg  `json:"cfg,omitempty"`
	Codes     []codeSpec  `json:"codes,omitempty"`
	N         int64       `json:"n"`
	SegID     int64       `json:"seg_id"`
	NowMS     int64       `json:"now_ms"`
	URL       string      `json:"url,omitempty"`
	Segs      [][2]uint64 `json:"segs,omitempty"`
	Timescale int64       `json:"timescale,omitempty"`
	LoopMS    int64       `json:"loop_ms,omitempty"`
	// traffic, loss, base
	Pattern string  `json:"pattern,omitempty"`
	BU      int     `json:"bu"`
	SegPart string  `json:"seg_part,omitempty"`
	Prefix  string  `json:"prefix,omitempty"` // further URL options of a traffic request, e.g. "chunkdur_0.5/ato_1/"
	File    string  `json:"file,omitempty"`
	Secs    []int64 `json:"secs,omitempty"`
}

func codesURL(cs []codeSpec) string {
	if len(cs) == 0 {
		return ""
	}
	var parts []string
	for _, c := range cs {
		s := fmt.Sprintf("{cycle:%d,rsq:%d,code:%d", c.Cycle, c.Rsq, c.Code)
		if c.Rep != "" {
			s += ",rep:" + c.Rep
		}
		parts = append(parts, s+"}")
	}
	return "statuscode_[" + strings.Join(parts, ",") + "]/"
}

func codesCoq(cs []codeSpec) string {
	var parts []string
	for _, c := range cs {
		reps := "[]"
		if c.Rep != "" && c.Rep != "*" {
			reps = "[" + lib.CoqString(c.Rep) + "]"
		}
		parts = append(parts, fmt.Sprintf("{| sc_cycle := %d; sc_rsq := %d; sc_code := %d; sc_reps := %s |}", c.Cycle, c.Rsq, c.Code, reps))
	}
	return "[" + strings.Join(parts, "; ") + "]"
}

// normPanic turns "app.findSegStartTime: runtime error: index out of range [-1]" into
// ("app.findSegStartTime", "index out of range").
func normPanic(p string) (fn, kind string) {
	if p == "" {
		return "", ""
	}
	i := strings.Index(p, ": ")
	if i < 0 {
		return p, ""
	}
	fn, kind = p[:i], p[i+2:]
	kind = strings.TrimPrefix(kind, "runtime error: ")
	if j := strings.Index(kind, " ["); j >= 0 {
		kind = kind[:j]
	}
	return fn, kind
}

// modelPanic is the panic as the Coq model names it: "<function>: <kind>" without package and receiver pointer.
func modelPanic(p string) string {
	if p == "" {
		return ""
	}
	fn, kind := normPanic(p)
	fn = strings.TrimPrefix(fn, "app.")
	fn = strings.TrimPrefix(fn, "(*Server).")
	return fn + ": " + kind
}

func panicKey(p string) string {
	fn, kind := normPanic(p)
	return "panic:" + fn + ":" + kind
}

// ---------------------------------------------------------------- oracle: statuscode

func repMatches(filter, repID string) bool {
	return filter == "" || filter == "*" || filter == repID
}

// firstInCycle: the smallest m with S(m) >= c*cycle*ts, where c is the cycle in which segment n starts.
func firstInCycle(S func(int64) int64, ts, cycle, n int64) int64 {
	lo := int64(0)
	if cycle <= math.MaxInt64/ts { // otherwise the first cycle never ends
		lo = (S(n) / (cycle * ts)) * cycle * ts
	}
	m := n
	for m > 0 && S(m-1) >= lo {
		m--
	}
	return m
}

// expectedCode: the code the property prescribes for segment n (counted from the start of the
// stream) of representation repID, 0 = answered normally.
func expectedCode(S func(int64) int64, ts int64, codes []codeSpec, repID string, n int64) int64 {
	for _, cs := range codes {
		if !repMatches(cs.Rep, repID) {
			continue
		}
		if n-firstInCycle(S, ts, cs.Cycle, n) == cs.Rsq {
			return cs.Code
		}
	}
	return 0
}

func statusKey(status int, panicStr string, exp int64, base int) string {
	switch {
	case status == 0:
		return panicKey(panicStr)
	case exp != 0 && status == base:
		return "hit-missed"
	case exp == 0 && status >= 400 && status != base:
		return "hit-unexpected"
	default:
		return "other-status"
	}
}

// ---------------------------------------------------------------- oracle: traffic

type itvl struct {
	dur   int64
	state byte
}

func printPattern(l []itvl) string {
	var sb strings.Builder
	for _, i := range l {
		sb.WriteByte(i.state)
		sb.WriteString(strconv.FormatInt(i.dur, 10))
	}
	return sb.String()
}

func flatten(l []itvl) []byte {
	var out []byte
	for _, i := range l {
		for k := int64(0); k < i.dur; k++ {
			out = append(out, i.state)
		}
	}
	return out
}

// stateOf: the state at position pos of the flattened sequence, without materialising it.
func stateOf(l []itvl, pos int64) byte {
	for _, i := range l {
		if pos < i.dur {
			return i.state
		}
		pos -= i.dur
	}
	return '?'
}

func cycleOf(l []itvl) int64 {
	var c int64
	for _, i := range l {
		c += i.dur
	}
	return c
}

func stateNum(b byte) int64 {
	switch b {
	case 'u':
		return 1
	case 'd':
		return 2
	case 's':
		return 3
	case 'h':
		return 4
	}
	return 0
}

// allPatterns enumerates the interval sequences of length 1..maxLen over the given states with
// durations 1..maxDur.
func allPatterns(states string, maxLen int, maxDur int64) [][]itvl {
	var out [][]itvl
	var rec func(cur []itvl)
	rec = func(cur []itvl) {
		if len(cur) > 0 {
			out = append(out, append([]itvl(nil), cur...))
		}
		if len(cur) == maxLen {
			return
		}
		for i := 0; i < len(states); i++ {
			for d := int64(1); d <= maxDur; d++ {
				rec(append(cur, itvl{d, states[i]}))
			}
		}
	}
	rec(nil)
	return out
}

// ---------------------------------------------------------------- loss intervals through the exported API

var itvlRe = regexp.MustCompile(`\{(-?\d+) (\d+)\}`)
var writtenRe = regexp.MustCompile(`([udsh])(\d*)`)

type lossObs struct {
	Err    bool
	Itvls  [][2]int64
	Cycle  int64
	States []int64 // -1 = panic
	Panic  string
}

func callSite() string {
	pcs := make([]uintptr, 64)
	n := runtime.Callers(3, pcs)
	frames := runtime.CallersFrames(pcs[:n])
	for {
		fr, more := frames.Next()
		if strings.Contains(fr.Function, "Dash-Industry-Forum/livesim2") {
			f := fr.Function
			if i := strings.LastIndex(f, "/"); i >= 0 {
				f = f[i+1:]
			}
			return f
		}
		if !more {
			return "?"
		}
	}
}

func observeLoss(pattern string, secs []int64) (o lossObs) {
	l, err := app.CreateLossItvls(pattern)
	if err != nil {
		o.Err = true
		return o
	}
	for _, m := range itvlRe.FindAllStringSubmatch(fmt.Sprint(l.Itvls), -1) {
		d, _ := strconv.ParseInt(m[1], 10, 64)
		s, _ := strconv.ParseInt(m[2], 10, 64)
		o.Itvls = append(o.Itvls, [2]int64{d, s})
	}
	o.Cycle = int64(l.CycleDurS())
	for _, s := range secs {
		func() {
			defer func() {
				if r := recover(); r != nil {
					o.States = append(o.States, -1)
					o.Panic = fmt.Sprintf("%s: %v", callSite(), r)
				}
			}()
			o.States = append(o.States, int64(l.StateAt(int(s))))
		}()
	}
	return o
}

func pairsCoq(l [][2]int64) string {
	var parts []string
	for _, p := range l {
		parts = append(parts, fmt.Sprintf("(%s, %d)", lib.Zs(p[0]), p[1]))
	}
	return "[" + strings.Join(parts, "; ") + "]"
}

// ---------------------------------------------------------------- run

type harness struct {
	c       *lib.Ctx
	ls      *lib.Livesim
	rng     *rand.Rand
	terms   []string
	defs    strings.Builder
	nEval   int
	nextID  int
	retries int
	fx      bool                  // the implementation has the proposed repair of calcStatusCode (probed)
	flat    map[*lib.TLRep]string // representations whose media files are <prefix><nr>.m4s in the asset directory
	fxLoss  bool                  // CreateLossItvls has the range check of the interval durations (probed)
	fxSubs  bool                  // generated subtitle tracks are looked up in the reference track (probed)
	dist    map[string]bool
	base    map[string]baseResp
	repDef  map[string]string
}

func (h *harness) id() int { h.nextID++; return h.nextID - 1 }

func (h *harness) get(url string) lib.Resp { return h.ls.GetRaw(url) }

// baseResp is what is kept of an answer without the fault parameter: status and body hash.
type baseResp struct {
	Status int
	Panic  string
	Len    int
	Sum    uint64
}

var crcTab = crc64.MakeTable(crc64.ECMA)

func (b baseResp) sameBody(body []byte) bool {
	return len(body) == b.Len && crc64.Checksum(body, crcTab) == b.Sum
}

func (h *harness) baseline(url string) baseResp {
	if r, ok := h.base[url]; ok {
		return r
	}
	r := h.get(url)
	b := baseResp{Status: r.Status, Panic: r.Panic, Len: len(r.Body), Sum: crc64.Checksum(r.Body, crcTab)}
	h.base[url] = b
	return b
}

func (h *harness) repName(key string, r *lib.VodRep) string {
	if n, ok := h.repDef[key]; ok {
		return n
	}
	n := fmt.Sprintf("rep_%d", len(h.repDef))
	fmt.Fprintf(&h.defs, "Definition %s : rep := %s.\n", n, lib.CoqRep(r))
	h.repDef[key] = n
	return n
}

func availMS(ref *lib.TLRep, start, n int64) int64 {
	e := ref.LoopE(n)
	return start*1000 + (e*1000+ref.Timescale-1)/ref.Timescale
}

func audioTime(ref, ar *lib.TLRep, frame, n int64) int64 {
	num := ref.LoopS(n) * ar.Timescale
	t := num / ref.Timescale / frame * frame
	if t*ref.Timescale < num {
		t += frame
	}
	return t
}

func frameDur(ar *lib.TLRep) int64 {
	s := ar.Segs[0]
	if s.NSamples == 0 {
		return 1024
	}
	return (s.End - s.Start) / int64(s.NSamples)
}

func domainOf(ref *lib.TLRep, cfg lib.TLCfg, codes []codeSpec, n int64) string {
	dom := "ok"
	switch {
	case cfg.StartS != 0:
		dom = "start"
	case cfg.EffSnr() != 0:
		dom = "snr"
	}
	for _, cs := range codes {
		if cs.Cycle > math.MaxInt32 {
			return "wrap-cycle"
		}
		if dom == "ok" && cs.Cycle*ref.Timescale < ref.Segs[0].End {
			dom = "short-cycle"
		}
	}
	if dom != "ok" {
		// in the first cycle of every pattern the code does not consult the timeline: no defect there
		first := true
		for _, cs := range codes {
			if ref.LoopS(n) >= cs.Cycle*ref.Timescale {
				first = false
			}
		}
		if first {
			dom += "-first-cycle"
		}
	}
	return dom
}

// statusRequest issues one media-segment request with statuscode_ and its baseline, evaluates the
// oracle and records the correspondence case.
func (h *harness) statusRequest(a *lib.TLAsset, r *lib.TLRep, cfg lib.TLCfg, codes []codeSpec, n int64, sel int64) {
	// the table the schedule is counted in: the reference video track for video, audio and generated
	// subtitles, the track's own table for stored text and thumbnail tracks
	ref := a.Ref()
	if r.Kind == "text" || r.Kind == "image" {
		ref = r
	}
	mode := cfg.Mode
	if r.Kind == "image" {
		mode = "number" // thumbnails are always addressed by number
	}
	segID := cfg.EffSnr() + n
	if mode == "tlt" {
		switch r.Kind {
		case "audio":
			segID = audioTime(ref, r, frameDur(r), n)
		case "timesubs": // generated subtitles: milliseconds
			segID = ref.LoopS(n) * 1000 / ref.Timescale
		default:
			segID = r.LoopS(n)
		}
	}
	now := availMS(ref, cfg.StartS, n) + 37
	plain := cfg
	cfg.Extra = plain.Extra + codesURL(codes)
	url := h.segURL(a, cfg, r, segID, now)
	base := h.baseline(h.segURL(a, plain, r, segID, now))
	resp := h.get(url)
	dom := domainOf(ref, cfg, codes, n)
	if r.Kind == "timesubs" {
		dom = "timesubs"
	}
	in := c14in{Kind: "status", Domain: dom, Asset: a.Path, Rep: r.ID, Cfg: &cfg, Codes: codes, N: n, SegID: segID, NowMS: now, URL: url}
	id := fmt.Sprint(h.id())
	h.nEval++
	exp := expectedCode(ref.LoopS, ref.Timescale, codes, r.ID, n)
	hit := "normal"
	if exp != 0 {
		hit = "hit"
	}
	h.c.Count(fmt.Sprintf("status/%s/%s/%s/%s", r.Kind, mode, dom, hit))
	status := resp.Status
	if resp.Panic != "" {
		status = 0
	}
	// oracle
	switch {
	case dom == "wrap-cycle": // a cycle the parser must refuse (cycle * timescale would wrap)
		if status != 400 {
			h.c.Fail(id, statusKey(status, resp.Panic, 0, 400), fmt.Sprintf("cycle %d s does not fit: the parameter must be refused (400), answered %d %s", codes[0].Cycle, status, resp.Panic), in)
		} else {
			h.dist[fmt.Sprintf("%s/%s/%s/%d/refused", a.Path, r.ID, cfg.URLPrefix(), n)] = true
		}
	case base.Status != 200:
		h.c.Fail(id, "baseline-"+fmt.Sprint(base.Status), fmt.Sprintf("the request without statuscode_ is answered %d %s", base.Status, base.Panic), in)
	case exp != 0 && int64(status) != exp:
		h.c.Fail(id, statusKey(status, resp.Panic, exp, base.Status),
			fmt.Sprintf("segment %d of %s is number %d of its cycle and must get %d, answered %d %s", n, r.ID, codes[0].Rsq, exp, status, resp.Panic), in)
	case exp == 0 && (status != base.Status || !base.sameBody(resp.Body)):
		h.c.Fail(id, statusKey(status, resp.Panic, exp, base.Status),
			fmt.Sprintf("segment %d of %s is not scheduled by %s and must be answered as without the parameter (%d), answered %d %s (body equal: %v)",
				n, r.ID, codesURL(codes), base.Status, status, resp.Panic, base.sameBody(resp.Body)), in)
	default:
		h.dist[fmt.Sprintf("%s/%s/%s/%d/%s", a.Path, r.ID, cfg.URLPrefix(), n, hit)] = true
	}
	// to the Coq model: every hit, both neighbours of a hit, and every sel-th other request
	ex := func(m int64) bool { return m >= 0 && expectedCode(ref.LoopS, ref.Timescale, codes, r.ID, m) != 0 }
	if sel <= 0 || !(exp != 0 || ex(n-1) || ex(n+1) || n%sel == 0 || status != base.Status && exp == 0) {
		return
	}
	h.c.Res.Inputs[id] = in
	if r.Kind == "timesubs" && !h.fxSubs {
		// the implementation does not know these tracks in calcStatusCode: model subsAnswerUnrepaired
		h.terms = append(h.terms, fmt.Sprintf("CSubs %s %s %s %d %d %d", id, cfg.CoqCfg(), codesCoq(codes), now, base.Status, status))
		return
	}
	am := "ByNumber"
	if mode == "tlt" {
		am = "ByTime"
	}
	audio := "None"
	if r.Kind == "audio" {
		audio = fmt.Sprintf("(Some (%d, %d))", r.Timescale, frameDur(r))
	}
	if r.Kind == "timesubs" { // follows the reference track: subtitle timescale 1000, any time
		audio = "(Some (1000, 1))"
	}
	h.terms = append(h.terms, fmt.Sprintf("CStatus %s %s %s %d %s %s %s %s %s %d %d %d %d %s",
		id, lib.Cbool(h.fx), h.repName(a.Path+"/"+ref.ID, ref.VodRep), a.LoopMS, cfg.CoqCfg(), codesCoq(codes), lib.CoqString(r.ID), audio, am, segID, now,
		base.Status, status, lib.CoqString(modelPanic(resp.Panic))))
}

var codeValues = []int64{404, 503, 410, 500, 599, 400, 429}

func (h *harness) statusSweep(assets []*lib.TLAsset) {
	c := h.c
	cycles := []int64{3, 5, 8, 30, 31}
	for _, a := range assets {
		ref := a.Ref()
		var audio *lib.TLRep
		for _, r := range a.Reps {
			if r.Kind == "audio" {
				audio = r
			}
		}
		N := int64(len(ref.Segs))
		minDur := ref.Segs[0].End - ref.Segs[0].Start
		for _, s := range ref.Segs {
			if d := s.End - s.Start; d < minDur {
				minDur = d
			}
		}
		// the WAVE assets have video segments of 1.2 MB: their sweeps use the audio representation
		// (same calcStatusCode path through the reference video table), video only sampled
		heavy := strings.HasPrefix(a.Path, "WAVE")
		if heavy && audio == nil && !c.Thorough() {
			continue
		}
		mainRep := ref
		varReps := []*lib.TLRep{ref, audio}
		if heavy && audio != nil {
			mainRep = audio
			varReps = []*lib.TLRep{audio}
		}
		for _, cycle := range cycles {
			perCycle := (cycle*ref.Timescale + minDur - 1) / minDur // max number of segments starting in one cycle
			nCycles, varCycles := int64(6), int64(2)
			if c.Thorough() {
				nCycles, varCycles = 13, 7
			}
			upTo := func(cyc int64) int64 {
				var m int64
				for m = 0; ref.LoopS(m) < cyc*cycle*ref.Timescale; m++ {
				}
				return m + N
			}
			nMax := upTo(nCycles)
			num := lib.TLCfg{Snr: -1, Tsbd: -1, Mode: "number"}
			// every relative number below the number of segments per cycle (and one that is never reached)
			for rsq := int64(0); rsq <= perCycle; rsq++ {
				codes := []codeSpec{{Cycle: cycle, Rsq: rsq, Code: codeValues[int(rsq+cycle)%len(codeValues)]}}
				for n := int64(0); n <= nMax; n++ {
					h.statusRequest(a, mainRep, num, codes, n, 13)
					if heavy && mainRep != ref && n%17 == rsq%17 {
						h.statusRequest(a, ref, num, codes, n, 1)
					}
				}
			}
			nMax = upTo(varCycles)
			// representation filters, audio, addressing modes, two patterns: a few relative numbers each
			rsqs := []int64{h.rng.Int63n(perCycle)}
			if c.Thorough() || cycle < 30 {
				rsqs = append(rsqs, perCycle-1)
			}
			for _, rsq := range rsqs {
				code := codeValues[h.rng.Intn(len(codeValues))]
				for _, filter := range []string{"*", ref.ID, "A48", "nomatch"} {
					codes := []codeSpec{{Cycle: cycle, Rsq: rsq, Code: code, Rep: filter}}
					for _, r := range varReps {
						if r == nil {
							continue
						}
						for n := int64(0); n <= nMax; n++ {
							h.statusRequest(a, r, num, codes, n, 8)
						}
					}
				}
				for _, mode := range []string{"tlnr", "tlt"} {
					cfg := lib.TLCfg{Snr: -1, Tsbd: -1, Mode: mode}
					codes := []codeSpec{{Cycle: cycle, Rsq: rsq, Code: code}}
					for _, r := range varReps {
						if r == nil {
							continue
						}
						for n := int64(0); n <= nMax; n++ {
							h.statusRequest(a, r, cfg, codes, n, 5)
						}
					}
				}
				// two simultaneous patterns: different cycles, overlapping hits, a filter on the first
				other := cycles[h.rng.Intn(len(cycles))]
				two := [][]codeSpec{
					{{Cycle: cycle, Rsq: rsq, Code: 404, Rep: ref.ID}, {Cycle: other, Rsq: 0, Code: 503}},
					{{Cycle: cycle, Rsq: rsq, Code: 410}, {Cycle: cycle, Rsq: rsq, Code: 500}, {Cycle: other, Rsq: 1, Code: 503, Rep: "A48"}},
				}
				for _, codes := range two {
					for _, r := range varReps {
						if r == nil {
							continue
						}
						for n := int64(0); n <= nMax; n++ {
							h.statusRequest(a, r, num, codes, n, 5)
						}
					}
				}
			}
		}
		// findings stream: a cycle whose length in ticks wraps the 64-bit int (2^60 s * 90000 = 0 mod 2^64)
		if a.Path == "testpic_2s" {
			for _, cycle := range []int64{1 << 60, 1<<60 + 1, 102481911520608, 1 << 31, 1<<31 - 1} {
				codes := []codeSpec{{Cycle: cycle, Rsq: 38, Code: 404}}
				for n := int64(36); n <= 40; n++ {
					h.statusRequest(a, ref, lib.TLCfg{Snr: -1, Tsbd: -1, Mode: "number"}, codes, n, 1)
				}
			}
		}
		// non-zero start time and start number (refuted before 497da16)
		for _, cfg := range []lib.TLCfg{{StartS: 30, Snr: -1, Tsbd: -1, Mode: "number"}, {Snr: 7, Tsbd: -1, Mode: "number"},
			{StartS: 1000, Snr: 3, Tsbd: -1, Mode: "tlnr"}} {
			for _, cycle := range []int64{8, 30} {
				codes := []codeSpec{{Cycle: cycle, Rsq: 1, Code: 404}}
				for n := int64(0); n <= 3*cycle*ref.Timescale/minDur && n < 40; n++ {
					h.statusRequest(a, mainRep, cfg, codes, n, 2)
				}
			}
		}
	}
}

func (h *harness) segURL(a *lib.TLAsset, cfg lib.TLCfg, r *lib.TLRep, segID, now int64) string {
	if pfx, ok := h.flat[r]; ok {
		return fmt.Sprintf("/livesim2/%s%s/%s%d%s?nowMS=%d", cfg.URLPrefix(), a.Path, pfx, segID, r.Ext, now)
	}
	return lib.SegURL(a, cfg, r, segID, now)
}

// loadFlatAsset parses an asset whose representations are <prefix>init.mp4 / <prefix><nr>.m4s in one directory
// (bbb_hevc_ac3_8s: video_ = representation 1, audio_ = representation 2) with the harness's own parser.
func (h *harness) loadFlatAsset(vodRoot, path, mpdName string, reps [][3]string) (*lib.TLAsset, error) {
	a := &lib.TLAsset{Path: path, MPD: mpdName}
	dir := filepath.Join(vodRoot, path)
	for _, rs := range reps { // prefix, id, kind
		initData, err := os.ReadFile(filepath.Join(dir, rs[0]+"init.mp4"))
		if err != nil {
			return nil, err
		}
		fi, err := mp4.DecodeFile(bytes.NewReader(initData))
		if err != nil || fi.Init == nil || fi.Init.Moov == nil {
			return nil, fmt.Errorf("%s: no moov (%v)", rs[0], err)
		}
		vr := &lib.VodRep{ID: rs[1], Dir: dir, Timescale: int64(fi.Init.Moov.Trak.Mdia.Mdhd.Timescale), IsAudio: rs[2] == "audio", IsVideo: rs[2] == "video"}
		var trex *mp4.TrexBox
		if fi.Init.Moov.Mvex != nil {
			trex = fi.Init.Moov.Mvex.Trex
		}
		for nr := int64(1); ; nr++ {
			data, err := os.ReadFile(filepath.Join(dir, fmt.Sprintf("%s%d.m4s", rs[0], nr)))
			if err != nil {
				break
			}
			si, err := lib.ParseMediaSegment(data, trex)
			if err != nil {
				return nil, err
			}
			vr.Segs = append(vr.Segs, lib.VodSeg{File: fmt.Sprintf("%s%d.m4s", rs[0], nr), Start: si.Tfdt, End: si.Tfdt + si.Dur, Nr: nr, Payload: si.Payload, NSamples: si.NSamples})
		}
		if len(vr.Segs) == 0 {
			return nil, fmt.Errorf("%s: no segments", rs[0])
		}
		r := &lib.TLRep{VodRep: vr, Trex: trex, Kind: rs[2], Ext: ".m4s"}
		h.flat[r] = rs[0]
		a.Reps = append(a.Reps, r)
	}
	ref := a.Ref()
	a.RefTS, a.RefDur = ref.Timescale, ref.Duration()
	a.LoopMS = 1000 * ref.Duration() / ref.Timescale
	return a, nil
}

// leadSweep: statuscode_ x audio x every addressing mode on an asset whose VoD audio cut points LEAD the
// video boundaries (bbb_hevc_ac3_8s: audio cut at 0 / 1.984 / 4.0 / 5.984 s, video at 0 / 2 / 4 / 6 s), with
// cycles that start on those boundaries, over several loops: the audio segment n belongs to the cycle in
// which reference (video) segment n starts, whatever the VoD audio table says.
func (h *harness) leadSweep(a *lib.TLAsset) {
	ref := a.Ref()
	var audio *lib.TLRep
	for _, r := range a.Reps {
		if r.Kind == "audio" {
			audio = r
		}
	}
	cycles := []int64{2, 6, 10}
	if h.c.Thorough() {
		cycles = []int64{2, 4, 6, 8, 10, 14, 30}
	}
	for ci, cycle := range cycles {
		var nMax int64
		for nMax = 0; ref.LoopS(nMax) < 4*cycle*ref.Timescale || nMax < 3*int64(len(ref.Segs)); nMax++ {
		}
		perCycle := cycle*ref.Timescale/(ref.Segs[0].End-ref.Segs[0].Start) + 1
		for rsq := int64(0); rsq < perCycle && rsq < 3; rsq++ {
			for mi, mode := range []string{"number", "tlnr", "tlt"} {
				filter := []string{"", audio.ID, "*"}[(ci+mi+int(rsq))%3]
				codes := []codeSpec{{Cycle: cycle, Rsq: rsq, Code: codeValues[(ci+mi)%len(codeValues)], Rep: filter}}
				cfg := lib.TLCfg{Snr: -1, Tsbd: -1, Mode: mode}
				if (ci+mi)%4 == 3 {
					cfg.StartS, cfg.Snr = 50, 2
				}
				for n := int64(0); n <= nMax; n++ {
					h.statusRequest(a, audio, cfg, codes, n, 2)
					if filter != audio.ID && n%3 == 0 {
						h.statusRequest(a, ref, cfg, codes, n, 2)
					}
				}
			}
		}
	}
}

// familySweep: statuscode_ combined with every other configuration family that changes timing or
// addressing. The schedule (which segment of which cycle is hit) must not depend on any of them:
// availabilityTimeOffset below / equal to / above a segment duration and infinite, time-shift buffer
// depth, chunked low-latency mode (within its guard 0 <= ato < segment duration), periods, start time,
// start number, $Time$ addressing, and the track kind (video, audio, stored subtitles, thumbnails,
// generated subtitles).
func (h *harness) familySweep(assets []*lib.TLAsset) {
	c := h.c
	for _, a := range assets {
		if strings.HasPrefix(a.Path, "WAVE") && !c.Thorough() {
			continue
		}
		ref := a.Ref()
		segMS := (ref.Segs[0].End - ref.Segs[0].Start) * 1000 / ref.Timescale
		type fam struct {
			name string
			cfg  lib.TLCfg
		}
		fams := []fam{
			{"ato-below", lib.TLCfg{Snr: -1, Tsbd: -1, AtoMS: segMS / 4, Mode: "number"}},
			{"ato-segment", lib.TLCfg{Snr: -1, Tsbd: -1, AtoMS: segMS, Mode: "number"}},
			{"ato-above", lib.TLCfg{Snr: -1, Tsbd: -1, AtoMS: 2*segMS + 500, Mode: "tlnr"}},
			{"ato-inf", lib.TLCfg{Snr: -1, Tsbd: -1, AtoMS: -1, Mode: "number"}},
			{"ato-above/tlt", lib.TLCfg{Snr: -1, Tsbd: -1, AtoMS: 3 * segMS, Mode: "tlt"}},
			{"tsbd-short", lib.TLCfg{Snr: -1, Tsbd: 10, Mode: "number"}},
			{"tsbd-long/ato", lib.TLCfg{Snr: -1, Tsbd: 600, AtoMS: segMS + 1, Mode: "tlt"}},
			{"chunked", lib.TLCfg{Snr: -1, Tsbd: -1, AtoMS: segMS / 2, Mode: "number", Extra: "chunkdur_0.5/"}},
			{"start/ato-above", lib.TLCfg{StartS: 1000, Snr: -1, Tsbd: -1, AtoMS: 2 * segMS, Mode: "number"}},
			{"snr/ato-above", lib.TLCfg{Snr: 5, Tsbd: -1, AtoMS: 2 * segMS, Mode: "tlnr"}},
			{"start/snr/tlt", lib.TLCfg{StartS: 77, Snr: 3, Tsbd: -1, Mode: "tlt"}},
		}
		if a.Path == "testpic_2s" {
			fams = append(fams, fam{"periods", lib.TLCfg{Snr: -1, Tsbd: -1, Mode: "number", Extra: "periods_60/"}},
				fam{"periods/ato", lib.TLCfg{Snr: -1, Tsbd: -1, AtoMS: 2 * segMS, Mode: "tlnr", Extra: "periods_60/"}})
		}
		// generated subtitles follow the reference track
		subs := &lib.TLRep{VodRep: &lib.VodRep{ID: "timestpp-en", Timescale: ref.Timescale, Segs: ref.Segs}, Kind: "timesubs", Ext: ".m4s"}
		cycles := []int64{5, 8, 30}
		if c.Thorough() {
			cycles = []int64{3, 5, 8, 30, 31}
		}
		for fi, f := range fams {
			for _, cycle := range cycles {
				if cycle*ref.Timescale < ref.Segs[0].End && !c.Thorough() {
					continue
				}
				var nMax int64
				for nMax = 0; ref.LoopS(nMax) < 3*cycle*ref.Timescale; nMax++ {
				}
				rsq := int64((fi + int(cycle)) % 2)
				codes := []codeSpec{{Cycle: cycle, Rsq: rsq, Code: codeValues[(fi+int(cycle))%len(codeValues)]}}
				for _, r := range a.Reps {
					if strings.HasPrefix(f.name, "chunked") && r.Kind != "video" && r.Kind != "audio" {
						continue
					}
					for n := int64(0); n <= nMax; n++ {
						h.statusRequest(a, r, f.cfg, codes, n, 2)
					}
				}
				if a.Path == "testpic_2s" && !strings.HasPrefix(f.name, "chunked") {
					cfg := f.cfg
					cfg.Extra += "timesubsstpp_en/"
					for n := int64(0); n <= nMax; n++ {
						h.statusRequest(a, subs, cfg, codes, n, 2)
					}
				}
			}
		}
	}
}

// ---------------------------------------------------------------- L2: calcStatusCode on synthetic tables

func (h *harness) calcSweep() {
	c := h.c
	rng := h.rng
	nTables := 40
	if c.Thorough() {
		nTables = 600
	}
	tss := []int64{1000, 90000, 48000, 12800, 10000000}
	for t := 0; t < nTables; t++ {
		ts := tss[rng.Intn(len(tss))]
		N := 1 + rng.Intn(6)
		vr := &lib.VodRep{ID: "V" + fmt.Sprint(rng.Intn(3)), Timescale: ts}
		var segs [][2]uint64
		pos := int64(0)
		for i := 0; i < N; i++ {
			var durMS int64
			switch rng.Intn(4) {
			case 0:
				durMS = 2000
			case 1:
				durMS = 1000 * (1 + rng.Int63n(10))
			case 2:
				durMS = 40 * (1 + rng.Int63n(300))
			default:
				durMS = 1 + rng.Int63n(12000)
			}
			d := durMS * ts / 1000
			if d*1000 != durMS*ts { // keep segment ends on the millisecond grid
				d = (durMS/1000 + 1) * ts
			}
			segs = append(segs, [2]uint64{uint64(pos), uint64(pos + d)})
			vr.Segs = append(vr.Segs, lib.VodSeg{Start: pos, End: pos + d, Nr: int64(i + 1)})
			pos += d
		}
		loopMS := pos * 1000 / ts
		r := &lib.TLRep{VodRep: vr, Kind: "video", Ext: ".m4s"}
		name := h.repName(fmt.Sprintf("syn%d", t), vr)
		for k := 0; k < 6; k++ {
			cfg := lib.TLCfg{Snr: -1, Tsbd: -1, Mode: "number"}
			switch rng.Intn(10) {
			case 0:
				cfg.StartS = 1 + rng.Int63n(100)
			case 1:
				cfg.Snr = 1 + rng.Int63n(9)
			}
			firstMS := (vr.Segs[0].End*1000 + ts - 1) / ts
			var cycle int64
			switch rng.Intn(6) {
			case 0:
				cycle = (firstMS + 999) / 1000 // the shortest cycle that is not shorter than the first segment
			case 1:
				cycle = loopMS/1000 + rng.Int63n(3)
			case 2:
				cycle = 1 + rng.Int63n((firstMS+999)/1000) // may be shorter than the first segment
			default:
				cycle = 1 + rng.Int63n(40)
			}
			if cycle < 1 {
				cycle = 1
			}
			var codes []codeSpec
			nPat := 1 + rng.Intn(2)
			for p := 0; p < nPat; p++ {
				cs := codeSpec{Cycle: cycle, Rsq: rng.Int63n(1 + cycle*1000*int64(N)/loopMS + 1), Code: codeValues[rng.Intn(len(codeValues))]}
				if p > 0 && rng.Intn(2) == 0 {
					cs.Cycle = 1 + rng.Int63n(40)
				}
				switch rng.Intn(6) {
				case 0:
					cs.Rep = "V" // substring of every id
				case 1:
					cs.Rep = vr.ID
				case 2:
					cs.Rep = "V7"
				case 3:
					cs.Rep = "*"
				}
				codes = append(codes, cs)
			}
			cfg.Extra = codesURL(codes)
			var nMax int64
			for nMax = 0; r.LoopS(nMax) < 4*cycle*ts && nMax < 60; nMax++ {
			}
			for n := int64(0); n <= nMax; n++ {
				h.calcOne(fmt.Sprintf("syn%d", t), name, r, segs, loopMS, cfg, codes, n, availMS(r, cfg.StartS, n)+int64(rng.Intn(3000)))
			}
		}
	}
}

// calcOne: one call of calcStatusCode (hook) on a synthetic table, oracle and correspondence case.
func (h *harness) calcOne(key, name string, r *lib.TLRep, segs [][2]uint64, loopMS int64, cfg lib.TLCfg, codes []codeSpec, n, now int64) {
	c := h.c
	vr := r.VodRep
	ts := vr.Timescale
	segID := cfg.EffSnr() + n
	segPart := fmt.Sprintf("%s/%d.m4s", vr.ID, segID)
	url := fmt.Sprintf("/livesim2/%ssynthetic/%s", cfg.URLPrefix(), segPart)
	cfgc := cfg
	dom := domainOf(r, cfg, codes, n)
	in := c14in{Kind: "calc", Domain: dom, Rep: vr.ID, Cfg: &cfgc, Codes: codes, N: n, SegID: segID, NowMS: now, URL: url, Segs: segs, Timescale: ts, LoopMS: loopMS}
	code, errS, pan := callCalc(in)
	id := fmt.Sprint(h.id())
	h.nEval++
	h.c.Res.Inputs[id] = in
	// substring filters are what the code implements; the oracle uses them as the code documents them
	exp := expectedCodeSub(r.LoopS, ts, codes, vr.ID, n)
	hit := "normal"
	if exp != 0 {
		hit = "hit"
	}
	c.Count(fmt.Sprintf("calc/N=%d/%s/%s", len(vr.Segs), dom, hit))
	obs := int64(code)
	switch {
	case pan != "":
		obs = 0
		c.Fail(id, panicKey(pan), fmt.Sprintf("calcStatusCode panics for segment %d: %s", n, pan), in)
	case errS != "":
		obs = -1
		c.Fail(id, "other-status", fmt.Sprintf("calcStatusCode fails for available segment %d: %s", n, errS), in)
	case int64(code) != exp && exp != 0:
		c.Fail(id, "hit-missed", fmt.Sprintf("calcStatusCode gives %d for segment %d, the schedule says %d", code, n, exp), in)
	case int64(code) != exp:
		c.Fail(id, "hit-unexpected", fmt.Sprintf("calcStatusCode gives %d for segment %d, the schedule says %d", code, n, exp), in)
	default:
		h.dist[fmt.Sprintf("%s/%s/%d/%s", key, cfg.URLPrefix(), n, hit)] = true
	}
	h.terms = append(h.terms, fmt.Sprintf("CCalc %s %s %s %d %s %s %s ByNumber %d %d %s %s",
		id, lib.Cbool(h.fx), name, loopMS, cfg.CoqCfg(), codesCoq(codes), lib.CoqString(vr.ID), segID, now, lib.Zs(obs), lib.CoqString(modelPanic(pan))))
}

// wrapSweep: assets whose loop is not a whole number of seconds (29.97 Hz: 2.002 s segments, 8.008 s
// loop) at segment numbers after many loop wraps, with cycles that divide 1001 s, so that cycle starts
// fall exactly on segment starts (every 500 segments): L2 on synthetic NTSC tables (1-5 segments per
// loop, three timescales), L1 on the bundled 29.97 Hz WAVE asset (audio, some video).
func (h *harness) wrapSweep(assets []*lib.TLAsset) {
	c := h.c
	cycles := []int64{7, 11, 13, 77, 91, 143, 1001}
	type layout struct {
		ts  int64
		dur []int64 // ticks
	}
	layouts := []layout{
		{30000, []int64{60060, 60060, 60060, 60060}},
		{30000, []int64{60060}},
		{60000, []int64{120120, 240240, 120120}},
		{90000, []int64{180180, 180180, 360360, 180180, 180180}},
		{24000, []int64{48048, 48048}},
	}
	for li, l := range layouts {
		vr := &lib.VodRep{ID: "V1", Timescale: l.ts}
		var segs [][2]uint64
		pos := int64(0)
		for i, d := range l.dur {
			segs = append(segs, [2]uint64{uint64(pos), uint64(pos + d)})
			vr.Segs = append(vr.Segs, lib.VodSeg{Start: pos, End: pos + d, Nr: int64(i + 1)})
			pos += d
		}
		if pos*1000%l.ts != 0 {
			continue
		}
		loopMS := pos * 1000 / l.ts
		r := &lib.TLRep{VodRep: vr, Kind: "video", Ext: ".m4s"}
		name := h.repName(fmt.Sprintf("ntsc%d", li), vr)
		for ci, cycle := range cycles {
			if !c.Thorough() && (li+ci)%2 == 1 {
				continue
			}
			cfg := lib.TLCfg{Snr: -1, Tsbd: -1, Mode: "number"}
			if (li+ci)%5 == 0 {
				cfg.StartS, cfg.Snr = 1001, 3
			}
			// segment numbers around the instants k * 1001 s (where every such cycle starts on a segment start)
			var around []int64
			for _, k := range []int64{1, 2, 7} {
				T := k * 1001 * l.ts
				var n int64
				for n = (T / pos) * int64(len(l.dur)); r.LoopS(n) < T; n++ {
				}
				for d := int64(-3); d <= 3; d++ {
					around = append(around, n+d)
				}
			}
			for _, rsq := range []int64{0, 1} {
				codes := []codeSpec{{Cycle: cycle, Rsq: rsq, Code: codeValues[int(cycle+rsq)%len(codeValues)]}}
				cfg.Extra = codesURL(codes)
				for _, n := range around {
					h.calcOne(fmt.Sprintf("ntsc%d", li), name, r, segs, loopMS, cfg, codes, n, availMS(r, cfg.StartS, n)+211)
				}
			}
		}
	}
	// L1: the bundled 29.97 Hz asset
	for _, a := range assets {
		if !strings.Contains(a.Path, "29.97") {
			continue
		}
		ref := a.Ref()
		var audio *lib.TLRep
		for _, r := range a.Reps {
			if r.Kind == "audio" {
				audio = r
			}
		}
		if audio == nil {
			audio = ref
		}
		for ci, cycle := range cycles {
			for _, k := range []int64{1, 3} {
				T := k * 1001 * ref.Timescale
				var n0 int64
				for n0 = (T / ref.Duration()) * int64(len(ref.Segs)); ref.LoopS(n0) < T; n0++ {
				}
				rsq := int64(ci % 2)
				codes := []codeSpec{{Cycle: cycle, Rsq: rsq, Code: 404}}
				cfg := lib.TLCfg{Snr: -1, Tsbd: -1, Mode: []string{"number", "tlnr", "tlt"}[ci%3]}
				for d := int64(-2); d <= 3; d++ {
					h.statusRequest(a, audio, cfg, codes, n0+d, 1)
				}
				if ci%3 == 0 || c.Thorough() {
					h.statusRequest(a, ref, cfg, codes, n0+rsq, 1)
					h.statusRequest(a, ref, cfg, codes, n0+rsq+1, 1)
				}
			}
		}
	}
}

// listSweep: pattern LISTS whose entries differ in exactly one field (representation filter, code,
// relative number, cycle), in both orders, and exact duplicates. The list means: the first pattern in
// order whose filter matches and whose relative number is hit gives the code (scheduleCode).
func (h *harness) listSweep(assets []*lib.TLAsset) {
	for _, a := range assets {
		if a.Path != "testpic_2s" && a.Path != "testpic_8s" && !h.c.Thorough() {
			continue
		}
		if strings.HasPrefix(a.Path, "WAVE") {
			continue
		}
		ref := a.Ref()
		var audio *lib.TLRep
		for _, r := range a.Reps {
			if r.Kind == "audio" {
				audio = r
			}
		}
		if audio == nil {
			continue
		}
		for _, cycle := range []int64{8, 30} {
			base := codeSpec{Cycle: cycle, Rsq: 0, Code: 404, Rep: ref.ID}
			variants := []codeSpec{
				{Cycle: cycle, Rsq: 0, Code: 404, Rep: audio.ID}, // only the representation differs
				{Cycle: cycle, Rsq: 0, Code: 404, Rep: "*"},
				{Cycle: cycle, Rsq: 0, Code: 404},
				{Cycle: cycle, Rsq: 0, Code: 503, Rep: ref.ID},      // only the code differs
				{Cycle: cycle, Rsq: 1, Code: 404, Rep: ref.ID},      // only the relative number differs
				{Cycle: cycle + 16, Rsq: 0, Code: 404, Rep: ref.ID}, // only the cycle differs
				base, // exact duplicate
			}
			var nMax int64
			for nMax = 0; ref.LoopS(nMax) < 2*(cycle+16)*ref.Timescale; nMax++ {
			}
			for vi, v := range variants {
				lists := [][]codeSpec{{base, v}, {v, base}}
				if vi == len(variants)-1 {
					lists = [][]codeSpec{{base, v}, {base, v, {Cycle: cycle, Rsq: 1, Code: 410, Rep: audio.ID}, {Cycle: cycle, Rsq: 1, Code: 410, Rep: audio.ID}}}
				}
				for _, codes := range lists {
					for _, r := range []*lib.TLRep{ref, audio} {
						for n := int64(0); n <= nMax; n++ {
							h.statusRequest(a, r, lib.TLCfg{Snr: -1, Tsbd: -1, Mode: "number"}, codes, n, 4)
						}
					}
				}
			}
		}
	}
}

func expectedCodeSub(S func(int64) int64, ts int64, codes []codeSpec, repID string, n int64) int64 {
	for _, cs := range codes {
		if !(cs.Rep == "" || cs.Rep == "*" || strings.Contains(repID, cs.Rep)) {
			continue
		}
		if n-firstInCycle(S, ts, cs.Cycle, n) == cs.Rsq {
			return cs.Code
		}
	}
	return 0
}

func callCalc(in c14in) (code int, errS string, pan string) {
	defer func() {
		if r := recover(); r != nil {
			pan = fmt.Sprintf("%s: %v", callSite(), r)
		}
	}()
	segPart := fmt.Sprintf("%s/%d.m4s", in.Rep, in.SegID)
	code, err, cfgErr := app.VerifC14CalcStatusCode(in.Rep, in.Segs, int(in.Timescale), int(in.LoopMS), strings.SplitN(in.URL, "?", 2)[0], segPart, int(in.NowMS))
	if cfgErr != nil {
		return 0, "cfg: " + cfgErr.Error(), ""
	}
	if err != nil {
		return 0, err.Error(), ""
	}
	return code, "", ""
}

// ---------------------------------------------------------------- traffic

type trafficReq struct {
	in       c14in
	url      string
	plainURL string
	stripURL string
	want     byte
	toCoq    bool
	id       string
	resp     lib.Resp
	elapsed  time.Duration
}

func (h *harness) trafficURL(a *lib.TLAsset, r *lib.TLRep, pattern string, bu string, n, now int64) (url, plain, strip, segPart string) {
	file := fmt.Sprintf("%d%s", n, r.Ext)
	if n < 0 {
		file = "init.mp4"
	}
	segPart = fmt.Sprintf("/%s%s/%s", bu, r.ID, file)
	url = fmt.Sprintf("/livesim2/traffic_%s/%s%s?nowMS=%d", pattern, a.Path, segPart, now)
	plain = fmt.Sprintf("/livesim2/%s%s?nowMS=%d", a.Path, segPart, now)
	strip = fmt.Sprintf("/livesim2/%s/%s/%s?nowMS=%d", a.Path, r.ID, file, now)
	return
}

// trafficURLMode: a request below BaseURL bu for representation repID, file file, with further URL options prefix.
func trafficURLMode(a *lib.TLAsset, prefix, pattern, bu, repID, file string, now int64) (url, plain, strip, segPart string) {
	segPart = fmt.Sprintf("/%s%s/%s", bu, repID, file)
	url = fmt.Sprintf("/livesim2/traffic_%s/%s%s%s?nowMS=%d", pattern, prefix, a.Path, segPart, now)
	plain = fmt.Sprintf("/livesim2/%s%s%s?nowMS=%d", prefix, a.Path, segPart, now)
	strip = fmt.Sprintf("/livesim2/%s%s/%s/%s?nowMS=%d", prefix, a.Path, repID, file, now)
	return
}

func delayClass(d time.Duration) int64 {
	switch {
	case d >= 9900*time.Millisecond:
		return 10
	case d >= 1900*time.Millisecond:
		return 2
	}
	return 0
}

func (h *harness) finishTraffic(q *trafficReq) {
	c := h.c
	basePlain := h.baseline(q.plainURL)
	baseStrip := h.baseline(q.stripURL)
	status := q.resp.Status
	if q.resp.Panic != "" {
		status = 0
	}
	dc := delayClass(q.elapsed)
	// a stalled machine can delay any request: a delay that does not fit the state is measured again
	// (a wrong sleep in the code is deterministic and stays)
	wantDC := map[byte]int64{'s': 2, 'h': 10}[q.want]
	for try := 0; dc != wantDC && q.resp.Panic == "" && try < 2 && h.retries < 8; try++ {
		h.retries++
		t0 := time.Now()
		q.resp = h.get(q.url)
		q.elapsed = time.Since(t0)
		dc = delayClass(q.elapsed)
		status = q.resp.Status
	}
	in := q.in
	// oracle
	what := ""
	switch q.want {
	case 'u':
		if status != baseStrip.Status || !baseStrip.sameBody(q.resp.Body) || dc != 0 {
			what = fmt.Sprintf("up at this second: must be answered as the plain request (%d), answered %d after %v", baseStrip.Status, status, q.elapsed)
		}
	case 'd':
		if status != 404 || dc != 0 {
			what = fmt.Sprintf("down at this second: must be 404, answered %d after %v", status, q.elapsed)
		}
	case 's':
		if status != baseStrip.Status || !baseStrip.sameBody(q.resp.Body) || dc != 2 {
			what = fmt.Sprintf("slow at this second: must be the plain answer (%d) after 2 s, answered %d after %v", baseStrip.Status, status, q.elapsed)
		}
	case 'h':
		if status != 503 || dc != 10 {
			what = fmt.Sprintf("hanging at this second: must be 503 after 10 s, answered %d after %v", status, q.elapsed)
		}
	case 'x': // invalid parameter
		if status != 400 {
			what = fmt.Sprintf("traffic_%s with %s: no such pattern (or a component without a cycle duration), must be refused (400), answered %d", in.Pattern, in.SegPart, status)
		}
	case 0: // no bu element: answered as without the parameter
		if status != basePlain.Status || !basePlain.sameBody(q.resp.Body) {
			what = fmt.Sprintf("no BaseURL element in the path: must be answered as without traffic_ (%d), answered %d", basePlain.Status, status)
		}
	}
	if q.want != 0 && q.want != 'x' && baseStrip.Status != 200 {
		what = fmt.Sprintf("baseline request answered %d", baseStrip.Status)
	}
	if what != "" {
		key := "traffic-state"
		if status == 0 {
			key = panicKey(q.resp.Panic)
		}
		c.Fail(q.id, key, fmt.Sprintf("traffic_%s %s second %d: %s %s", in.Pattern, in.SegPart, in.NowMS/1000, what, q.resp.Panic), in)
	} else {
		h.dist[fmt.Sprintf("traffic/%s/%d/%d", in.Pattern, in.BU, in.NowMS/1000)] = true
	}
	if q.toCoq {
		c.Res.Inputs[q.id] = in
		h.terms = append(h.terms, fmt.Sprintf("CTraffic %s %s %s %s %d %d %d %d %d %s", q.id, lib.Cbool(h.fxLoss), lib.Zbytes([]byte(in.Pattern)), lib.CoqString(in.SegPart),
			in.NowMS, basePlain.Status, baseStrip.Status, status, dc, lib.CoqString(modelPanic(q.resp.Panic))))
	}
}

func (h *harness) trafficSweep(a *lib.TLAsset) {
	c := h.c
	r := a.Ref()
	segMS := (r.Segs[0].End - r.Segs[0].Start) * 1000 / r.Timescale
	pats := allPatterns("ud", 4, 3)
	bases := []int64{1000}
	if c.Thorough() {
		bases = []int64{1000, 1700000123, 86399}
	}
	mk := func(pattern string, bu int, buStr string, sec int64, want byte, toCoq bool, dom string) *trafficReq {
		now := sec*1000 + (sec*37)%1000
		n := now/segMS - 2
		if dom == "init" { // the init segment below the same BaseURL (cheap to serve)
			n, dom = -1, "ok"
		}
		url, plain, strip, segPart := h.trafficURL(a, r, pattern, buStr, n, now)
		q := &trafficReq{in: c14in{Kind: "traffic", Domain: dom, Asset: a.Path, Rep: r.ID, Pattern: pattern, BU: bu, SegPart: segPart, N: n, NowMS: now, URL: url},
			url: url, plainURL: plain, stripURL: strip, want: want, toCoq: toCoq, id: fmt.Sprint(h.id())}
		h.nEval++
		c.Count("traffic/" + dom + "/" + string(rune(want+'0'*boolByte(want == 0))))
		return q
	}
	runNow := func(q *trafficReq) {
		t0 := time.Now()
		q.resp = h.get(q.url)
		q.elapsed = time.Since(t0)
		h.finishTraffic(q)
	}
	// every second of three cycles, patterns grouped three per URL: bu<i> selects pattern i
	coqEvery := 37
	k := 0
	for g := 0; g < len(pats); g += 3 {
		grp := pats[g:min(g+3, len(pats))]
		var strs []string
		for _, p := range grp {
			strs = append(strs, printPattern(p))
		}
		pattern := strings.Join(strs, ",")
		for i, p := range grp {
			fl := flatten(p)
			cyc := int64(len(fl))
			for _, b := range bases {
				for s := b; s < b+3*cyc; s++ {
					k++
					dom := "ok"
					if len(p) == 4 && k%4 != 0 && !c.Thorough() {
						dom = "init"
					}
					runNow(mk(pattern, i, fmt.Sprintf("bu%d/", i), s, fl[s%cyc], k%coqEvery == 0, dom))
				}
			}
		}
	}
	// meanwhile: paths without a BaseURL element, odd bu elements, the findings stream
	for _, x := range []struct {
		pattern, bu string
		nr          int
		want        byte
		dom         string
	}{
		{"u1d1", "", 0, 0, "ok"}, {"d5", "", 0, 0, "ok"}, {"u1d1,d1u1", "bux/", 0, 0, "ok"},
		{"u1d1,d1u1", "bu01/", 1, '?', "ok"}, {"u1d1,d1u1", "bu00/", 0, '?', "ok"},
		// a BaseURL number the MPD does not offer: refused
		{"u1d1,d1u1", "bu2/", 2, 'x', "ok"}, {"u10", "bu9/", 9, 'x', "ok"},
		// a component without a cycle duration: the whole parameter is invalid, every request is refused
		{"u10,", "bu1/", 1, 'x', "empty-pattern"}, {"12", "bu0/", 0, 'x', "empty-pattern"}, {"u10,,d3", "bu1/", 1, 'x', "empty-pattern"},
		{",u3", "bu0/", 0, 'x', "empty-pattern"}, {"u10,", "bu0/", 0, 'x', "empty-pattern"}, {"u0", "bu0/", 0, 'x', "empty-pattern"},
	} {
		for s := int64(3000); s < 3004; s++ {
			want := x.want
			if want == '?' {
				fl := flatten(parsePat(strings.Split(x.pattern, ",")[x.nr]))
				want = fl[s%int64(len(fl))]
			}
			runNow(mk(x.pattern, x.nr, x.bu, s, want, true, x.dom))
		}
	}
}

// slowSweep starts the requests that hit slow (2 s) and hanging (10 s) states; they run side by
// side with the rest of the harness. The returned function waits for them and evaluates them.
func (h *harness) slowSweep(a *lib.TLAsset) func() {
	c := h.c
	r := a.Ref()
	segMS := (r.Segs[0].End - r.Segs[0].Start) * 1000 / r.Timescale
	var slow []*trafficReq
	mk := func(pattern string, sec int64, want byte) *trafficReq {
		now := sec*1000 + (sec*37)%1000
		n := now/segMS - 2
		url, plain, strip, segPart := h.trafficURL(a, r, pattern, "bu0/", n, now)
		q := &trafficReq{in: c14in{Kind: "traffic", Domain: "ok", Asset: a.Path, Rep: r.ID, Pattern: pattern, BU: 0, SegPart: segPart, N: n, NowMS: now, URL: url},
			url: url, plainURL: plain, stripURL: strip, want: want, toCoq: true, id: fmt.Sprint(h.id())}
		h.nEval++
		c.Count("traffic/slow-hang/" + string(rune(want)))
		return q
	}
	// slow and hanging states: recognised by the delay, run side by side
	shPats := [][]itvl{{{1, 's'}, {1, 'u'}}, {{2, 'd'}, {1, 's'}, {1, 'u'}}, {{1, 'u'}, {2, 's'}}, {{1, 'h'}, {2, 'u'}}, {{1, 'd'}, {1, 'h'}, {1, 's'}}}
	if c.Thorough() {
		for _, p := range allPatterns("udsh", 3, 2) {
			if h.rng.Intn(8) == 0 {
				shPats = append(shPats, p)
			}
		}
	}
	for _, p := range shPats {
		fl := flatten(p)
		cyc := int64(len(fl))
		for s := int64(2000); s < 2000+2*cyc; s++ {
			slow = append(slow, mk(printPattern(p), s, fl[s%cyc]))
		}
	}
	// every state crossed with every delivery mode: the state decides the answer, the way the segment is
	// produced (complete, chunked low latency, encrypted, generated, stored text, thumbnail, audio, $Time$)
	// must not change it
	type dmode struct{ name, prefix, rep, ext, addr string }
	modes := []dmode{
		{"chunked-video", "chunkdur_0.5/ato_1/", r.ID, ".m4s", "nr"},
		{"chunked-audio", "chunkdur_1/ato_0.5/", "A48", ".m4s", "nr"},
		{"audio", "", "A48", ".m4s", "nr"},
		{"encrypted", "eccp_cbcs/", r.ID, ".m4s", "nr"},
		{"generated-subtitles", "timesubsstpp_en/", "timestpp-en", ".m4s", "nr"},
		{"generated-wvtt/time", "timesubswvtt_sv/segtimeline_1/", "timewvtt-sv", ".m4s", "ms"},
		{"stored-text", "", "imsc1_txt_sv", ".m4s", "nr"},
		{"thumbnail", "", "thumbs", ".jpg", "nr"},
		{"time-addressing", "segtimeline_1/", r.ID, ".m4s", "ticks"},
		{"ato/tsbd", "ato_3/tsbd_20/", r.ID, ".m4s", "nr"},
	}
	if a.Path == "testpic_2s" {
		dp := []itvl{{1, 'u'}, {1, 'd'}, {1, 's'}, {1, 'h'}}
		fl := flatten(dp)
		reps := 1
		if c.Thorough() {
			reps = 3
		}
		for mi, m := range modes {
			for s := int64(2400 + 4*mi); s < int64(2400+4*mi+4*reps); s++ {
				now := s*1000 + (s*37)%1000
				n := now/segMS - 2
				var file string
				switch m.addr {
				case "ms":
					file = fmt.Sprintf("%d%s", n*segMS, m.ext)
				case "ticks":
					file = fmt.Sprintf("%d%s", r.LoopS(n), m.ext)
				default:
					file = fmt.Sprintf("%d%s", n, m.ext)
				}
				url, plain, strip, segPart := trafficURLMode(a, m.prefix, printPattern(dp), "bu0/", m.rep, file, now)
				want := fl[s%4]
				q := &trafficReq{in: c14in{Kind: "traffic", Domain: "ok", Asset: a.Path, Rep: m.rep, Pattern: printPattern(dp), BU: 0, SegPart: segPart, Prefix: m.prefix, File: file, N: n, NowMS: now, URL: url},
					url: url, plainURL: plain, stripURL: strip, want: want, toCoq: true, id: fmt.Sprint(h.id())}
				h.nEval++
				c.Count("traffic/delivery/" + m.name + "/" + string(rune(want)))
				slow = append(slow, q)
			}
		}
	}
	var wg sync.WaitGroup
	for _, q := range slow {
		wg.Add(1)
		go func(q *trafficReq) {
			defer wg.Done()
			t0 := time.Now()
			q.resp = h.get(q.url)
			q.elapsed = time.Since(t0)
		}(q)
	}
	return func() {
		wg.Wait()
		for _, q := range slow {
			h.finishTraffic(q)
		}
	}
}

func boolByte(b bool) byte {
	if b {
		return 1
	}
	return 0
}

func parsePat(s string) []itvl {
	var out []itvl
	for i := 0; i < len(s); {
		st := s[i]
		j := i + 1
		for j < len(s) && s[j] >= '0' && s[j] <= '9' {
			j++
		}
		d, _ := strconv.ParseInt(s[i+1:j], 10, 64)
		out = append(out, itvl{d, st})
		i = j
	}
	return out
}

var validCompRe = regexp.MustCompile(`^[0-9]*([udsh]0*[1-9][0-9]*)+$`)

// validTraffic: every comma-separated component describes at least one interval with positive durations.
func validTraffic(p string) bool {
	for _, comp := range strings.Split(p, ",") {
		if !validCompRe.MatchString(comp) {
			return false
		}
	}
	return true
}

var baseURLRe = regexp.MustCompile(`<BaseURL>([^<]*)</BaseURL>`)

func (h *harness) baseURLSweep(assets []*lib.TLAsset) {
	c := h.c
	pats := []string{"u1", "u20d10", "u1d1,d1u1", "u3,d3,s1u2,h1u5", "d1,d1,d1,d1,d1,d1,d1,d1,d1,d1,d1,u1", "u10,", "12"}
	for ai, a := range assets {
		for pi, p := range pats {
			if ai > 0 && pi%2 == 1 {
				continue
			}
			for _, mode := range []string{"number", "tlt"} {
				cfg := lib.TLCfg{Snr: -1, Tsbd: -1, Mode: mode, Extra: "traffic_" + p + "/"}
				now := int64(100000 + 1000*pi)
				url := lib.MPDURL(a, cfg, now)
				resp := h.get(url)
				id := fmt.Sprint(h.id())
				h.nEval++
				nPat := strings.Count(p, ",") + 1
				in := c14in{Kind: "base", Domain: "ok", Asset: a.Path, Cfg: &cfg, Pattern: p, NowMS: now, URL: url}
				c.Res.Inputs[id] = in
				c.Count("baseurl/" + fmt.Sprint(nPat))
				var got []string
				for _, m := range baseURLRe.FindAllStringSubmatch(string(resp.Body), -1) {
					got = append(got, m[1])
				}
				ok := resp.Status == 200 && len(got) == nPat
				for i := 0; ok && i < nPat; i++ {
					ok = got[i] == fmt.Sprintf("bu%d/", i)
				}
				if !validTraffic(p) { // a component without a cycle duration: the MPD must not offer a BaseURL for it
					ok = resp.Status == 400
				}
				if !ok {
					c.Fail(id, "baseurls", fmt.Sprintf("MPD for traffic_%s: status %d %s, BaseURLs %v, expected bu0/ .. bu%d/ (400 for an invalid pattern)", p, resp.Status, resp.Panic, got, nPat-1), in)
				} else {
					h.dist["base/"+a.Path+"/"+p+"/"+mode] = true
				}
				var q []string
				for _, g := range got {
					q = append(q, lib.CoqString(g))
				}
				h.terms = append(h.terms, fmt.Sprintf("CBase %s %s %s %d [%s]", id, lib.Cbool(h.fxLoss), lib.Zbytes([]byte(p)), resp.Status, strings.Join(q, "; ")))
			}
		}
	}
}

// periodBaseURLs returns, for every Period of an MPD, the texts of its BaseURL children.
func periodBaseURLs(body []byte) (out [][]string, err error) {
	dec := xml.NewDecoder(bytes.NewReader(body))
	var stack []string
	cur := -1
	for {
		tok, e := dec.Token()
		if e == io.EOF {
			return out, nil
		}
		if e != nil {
			return out, e
		}
		switch t := tok.(type) {
		case xml.StartElement:
			stack = append(stack, t.Name.Local)
			if t.Name.Local == "Period" && len(stack) == 2 {
				out = append(out, nil)
				cur = len(out) - 1
			}
		case xml.EndElement:
			stack = stack[:len(stack)-1]
		case xml.CharData:
			if len(stack) == 3 && stack[1] == "Period" && stack[2] == "BaseURL" && cur >= 0 {
				out[cur] = append(out[cur], string(t))
			}
		}
	}
}

// mpdShapeSweep: the MPD side of traffic_ under every MPD shape - one or several Periods, the three
// addressing modes, the MPD variants of the asset (subtitles, thumbnails, endNumber), generated
// subtitles, availabilityTimeOffset: EVERY Period offers exactly one BaseURL per pattern, bu0/ bu1/ ... in
// order, and a segment requested behind each of them is answered as the state of its pattern says.
func (h *harness) mpdShapeSweep(a *lib.TLAsset) {
	c := h.c
	r := a.Ref()
	segMS := (r.Segs[0].End - r.Segs[0].Start) * 1000 / r.Timescale
	mpds := []string{"Manifest.mpd", "Manifest_imsc1.mpd", "Manifest_thumbs.mpd", "Manifest_endNumber.mpd"}
	shapes := []string{"", "periods_60/", "periods_120/", "periods_60/continuous_1/", "timesubsstpp_en,sv/", "ato_1/", "periods_120/timesubswvtt_en/", "START/periods_60/",
		"STOP/", "STOP/periods_60/", "STOP/periods_120/continuous_1/", "STOPREL/", "STOPREL/periods_60/", "STOPFUTURE/", "STOPFUTURE/periods_60/"}
	pats := []string{"u1d1,d1u1", "u2d3,d1u1,u1"}
	k := 0
	for si, shape := range shapes {
		for _, mode := range []string{"number", "tlnr", "tlt"} {
			for mi, mpdName := range mpds {
				if !c.Thorough() && (si+mi)%2 == 1 && mi > 0 {
					continue
				}
				k++
				p := pats[k%len(pats)]
				nPat := strings.Count(p, ",") + 1
				cfg := lib.TLCfg{Snr: -1, Tsbd: -1, Mode: mode, Extra: shape + "traffic_" + p + "/"}
				if strings.HasPrefix(shape, "START/") { // a start time and a start number
					cfg.StartS, cfg.Snr, cfg.Extra = 1000, 4, strings.TrimPrefix(shape, "START/")+"traffic_"+p+"/"
				}
				now := int64(1000000+1000*k) + 140000 + 437
				segNow := now // the instant up to which segments exist
				switch {      // every MPD return path: after the stop time (static MPD), absolute and relative, and before it
				case strings.HasPrefix(shape, "STOP/"):
					segNow = (now/1000 - 30) * 1000
					cfg.Extra = fmt.Sprintf("stop_%d/", segNow/1000) + strings.TrimPrefix(shape, "STOP/") + "traffic_" + p + "/"
				case strings.HasPrefix(shape, "STOPREL/"):
					segNow = now - 25000
					cfg.Extra = "stoprel_-25/" + strings.TrimPrefix(shape, "STOPREL/") + "traffic_" + p + "/"
				case strings.HasPrefix(shape, "STOPFUTURE/"):
					cfg.Extra = fmt.Sprintf("stop_%d/", now/1000+100) + strings.TrimPrefix(shape, "STOPFUTURE/") + "traffic_" + p + "/"
				}
				url := fmt.Sprintf("/livesim2/%s%s/%s?nowMS=%d", cfg.URLPrefix(), a.Path, mpdName, now)
				resp := h.get(url)
				id := fmt.Sprint(h.id())
				h.nEval++
				in := c14in{Kind: "base", Domain: "ok", Asset: a.Path, Cfg: &cfg, Pattern: p, NowMS: now, URL: url}
				c.Res.Inputs[id] = in
				periods, err := periodBaseURLs(resp.Body)
				c.Count(fmt.Sprintf("mpd-shape/%s%s/periods=%d", shape, mode, len(periods)))
				what := ""
				switch {
				case resp.Status != 200 || err != nil || len(periods) == 0:
					what = fmt.Sprintf("status %d %s, %d Periods, parse error %v", resp.Status, resp.Panic, len(periods), err)
				default:
					for pi, got := range periods {
						ok := len(got) == nPat
						for i := 0; ok && i < nPat; i++ {
							ok = got[i] == fmt.Sprintf("bu%d/", i)
						}
						if !ok && what == "" {
							what = fmt.Sprintf("Period %d of %d offers BaseURLs %v, expected bu0/ .. bu%d/", pi+1, len(periods), got, nPat-1)
						}
					}
				}
				if what != "" {
					c.Fail(id, "baseurls", fmt.Sprintf("MPD %s: %s", url, what), in)
				} else {
					h.dist["mpd-shape/"+url] = true
				}
				for pi, got := range periods {
					var q []string
					for _, g := range got {
						q = append(q, lib.CoqString(g))
					}
					pid := id
					if pi > 0 {
						pid = fmt.Sprint(h.id())
						c.Res.Inputs[pid] = in
					}
					h.terms = append(h.terms, fmt.Sprintf("CBase %s %s %s %d [%s]", pid, lib.Cbool(h.fxLoss), lib.Zbytes([]byte(p)), resp.Status, strings.Join(q, "; ")))
				}
				// a segment behind every BaseURL of this configuration
				prefix := strings.TrimSuffix(cfg.URLPrefix(), "traffic_"+p+"/")
				n := (segNow-cfg.StartS*1000)/segMS - 2
				file := fmt.Sprintf("%d.m4s", cfg.EffSnr()+n)
				if mode == "tlt" {
					file = fmt.Sprintf("%d.m4s", r.LoopS(n))
				}
				for i, comp := range strings.Split(p, ",") {
					fl := flatten(parsePat(comp))
					surl, plain, strip, segPart := trafficURLMode(a, prefix, p, fmt.Sprintf("bu%d/", i), r.ID, file, now)
					q := &trafficReq{in: c14in{Kind: "traffic", Domain: "ok", Asset: a.Path, Rep: r.ID, Pattern: p, BU: i, SegPart: segPart, Prefix: prefix, File: file, N: n, NowMS: now, URL: surl},
						url: surl, plainURL: plain, stripURL: strip, want: fl[(now/1000)%int64(len(fl))], toCoq: true, id: fmt.Sprint(h.id())}
					h.nEval++
					c.Count("mpd-shape/segment/" + string(rune(q.want)))
					t0 := time.Now()
					q.resp = h.get(q.url)
					q.elapsed = time.Since(t0)
					h.finishTraffic(q)
				}
			}
		}
	}
}

// ---------------------------------------------------------------- loss intervals (exported API)

func (h *harness) lossCase(pattern string, secs []int64, structured []itvl, toCoq bool) {
	c := h.c
	o := observeLoss(pattern, secs)
	id := fmt.Sprint(h.id())
	h.nEval++
	dom := "ok"
	if !o.Err && len(o.Itvls) == 0 {
		dom = "empty-pattern"
	}
	in := c14in{Kind: "loss", Domain: dom, Pattern: pattern, Secs: secs}
	if structured != nil {
		c.Count(fmt.Sprintf("loss/structured/len=%d", len(structured)))
		// round trip and the state function
		above := false
		for _, iv := range structured {
			above = above || iv.dur > math.MaxInt32
		}
		if above && o.Err { // an interval of more than 2^31-1 s may be refused
			c.Count("loss/structured/above-bound-refused")
			h.dist["loss/refused/"+pattern] = true
			if toCoq {
				c.Res.Inputs[id] = in
				h.terms = append(h.terms, fmt.Sprintf("CLoss %s %s %s %s %s %s %s %s", id, lib.Cbool(h.fxLoss), lib.Zbytes([]byte(pattern)), lib.Cbool(o.Err), pairsCoq(o.Itvls), lib.Zs(o.Cycle), lib.Zlist64(secs), lib.Zlist64(o.States)))
			}
			return
		}
		ok := !o.Err && len(o.Itvls) == len(structured)
		for i := 0; ok && i < len(structured); i++ {
			ok = o.Itvls[i][0] == structured[i].dur && o.Itvls[i][1] == stateNum(structured[i].state)
		}
		if !ok {
			c.Fail(id, "loss-parse", fmt.Sprintf("CreateLossItvls(%q) = %v (err %v), written from %v", pattern, o.Itvls, o.Err, structured), in)
		} else {
			cyc := cycleOf(structured)
			at := func(pos int64) byte { return stateOf(structured, pos) }
			if cyc <= 1000 {
				fl := flatten(structured) // the property text literally: the repeated interval sequence, second by second
				at = func(pos int64) byte { return fl[pos] }
			}
			good := o.Cycle == cyc
			for i, s := range secs {
				if good && o.States[i] != stateNum(at(s%cyc)) {
					good = false
					c.Fail(id, "state-at", fmt.Sprintf("StateAt(%d) of %q = %d, the flattened pattern has %c at %d mod %d", s, pattern, o.States[i], at(s%cyc), s, cyc), in)
				}
			}
			if o.Cycle != cyc {
				c.Fail(id, "cycle-dur", fmt.Sprintf("CycleDurS of %q = %d", pattern, o.Cycle), in)
			}
			if good {
				h.dist["loss/"+pattern] = true
			}
		}
	} else {
		kind := "accepted"
		if o.Err {
			kind = "rejected"
		} else if len(o.Itvls) == 0 {
			kind = "accepted-empty"
		}
		c.Count("loss/raw/" + kind)
		// anything that is accepted must describe at least one interval, and every interval must have
		// the positive duration that is written in the string
		if !o.Err {
			written := writtenRe.FindAllStringSubmatch(pattern, -1)
			bad := len(o.Itvls) == 0 || len(written) != len(o.Itvls)
			key := "loss-accepts-unusable"
			for i, iv := range o.Itvls {
				if bad {
					break
				}
				w, ok := new(big.Int).SetString(written[i][2], 10)
				if !ok || w.Sign() <= 0 || !w.IsInt64() || w.Int64() != iv[0] || iv[0] <= 0 {
					bad = true
					if ok && !w.IsInt64() {
						key = "loss-duration-overflow"
						in.Domain = "overflow"
					}
				}
			}
			if bad {
				if o.Panic != "" {
					key = panicKey(o.Panic)
				}
				c.Fail(id, key, fmt.Sprintf("CreateLossItvls(%q) succeeds with intervals %v, cycle %d; StateAt: %v %s", pattern, o.Itvls, o.Cycle, o.States, o.Panic), in)
			} else {
				h.dist["lossraw/"+pattern] = true
			}
		}
	}
	if toCoq {
		c.Res.Inputs[id] = in
		h.terms = append(h.terms, fmt.Sprintf("CLoss %s %s %s %s %s %s %s %s", id, lib.Cbool(h.fxLoss), lib.Zbytes([]byte(pattern)), lib.Cbool(o.Err), pairsCoq(o.Itvls), lib.Zs(o.Cycle), lib.Zlist64(secs), lib.Zlist64(o.States)))
	}
}

func (h *harness) lossSweep() {
	rng := h.rng
	pats := allPatterns("udsh", 4, 3)
	every := 29
	if h.c.Thorough() {
		every = 3
	}
	for i, p := range pats {
		cyc := int64(len(flatten(p)))
		var secs []int64
		for s := int64(0); s < 3*cyc; s++ {
			secs = append(secs, s)
		}
		secs = append(secs, 1700000000+rng.Int63n(1000), rng.Int63n(1<<40))
		h.lossCase(printPattern(p), secs, p, i%every == 0)
	}
	// larger durations
	for k := 0; k < 200; k++ {
		var p []itvl
		for j := 0; j <= rng.Intn(5); j++ {
			d := int64(1 + rng.Intn(100))
			switch rng.Intn(12) {
			case 0, 1:
				d = 1 + rng.Int63n(math.MaxInt32) // up to the longest interval the repaired parser takes
			case 2:
				d = math.MaxInt32 - rng.Int63n(2)
			case 3:
				d = math.MaxInt32 + 1 + rng.Int63n(1<<40) // longer: refused, or taken exactly (never another value)
			}
			p = append(p, itvl{d, "udsh"[rng.Intn(4)]})
		}
		var secs []int64
		for j := 0; j < 12; j++ {
			secs = append(secs, rng.Int63n(1<<41))
		}
		h.lossCase(printPattern(p), secs, p, true)
	}
	// raw strings: what else is accepted or rejected
	raw := []string{"", "u", "d", "u0", "u00", "u0d1", "u1d", "u1d0", "12", "0", "u10,", "x", "u1x", "u-1", "u+1", "u 1", "U1", "u1.5", "5u3", "007u2", "u1u1",
		"u18446744073709551616", "u9223372036854775808", "u9223372036854775807", "u99999999999999999999d1", "u2147483647", "u2147483648", "u2147483647d2147483647s2147483647", "u4294967296", "u21474836470", "9999999999999999999999u1", "u1/", "u1\xff", "\x80", "u\x2f1", "u:1", "hh", "s1h", "u1,d1"}
	alphabet := "udshudsh0123456789019,x/:- U"
	for k := 0; k < 300; k++ {
		var sb strings.Builder
		for j := 0; j < rng.Intn(8); j++ {
			sb.WriteByte(alphabet[rng.Intn(len(alphabet))])
		}
		raw = append(raw, sb.String())
	}
	for _, s := range raw {
		h.lossCase(s, []int64{0, 1, 2, 3, 5, 8, 1000, 1700000000}, nil, true)
	}
}

// ---------------------------------------------------------------- replay

func (h *harness) replay(in c14in, assets []*lib.TLAsset) {
	find := func(p string) *lib.TLAsset {
		for _, a := range assets {
			if a.Path == p {
				return a
			}
		}
		return nil
	}
	switch in.Kind {
	case "status":
		a := find(in.Asset)
		cfg := *in.Cfg
		if i := strings.Index(cfg.Extra, "statuscode_"); i >= 0 {
			cfg.Extra = cfg.Extra[:i]
		}
		rr := a.Rep(in.Rep)
		if rr == nil && strings.HasPrefix(in.Rep, "time") {
			rr = &lib.TLRep{VodRep: &lib.VodRep{ID: in.Rep, Timescale: a.Ref().Timescale, Segs: a.Ref().Segs}, Kind: "timesubs", Ext: ".m4s"}
		}
		h.statusRequest(a, rr, cfg, in.Codes, in.N, 0)
		fmt.Printf("replay %s -> %d %s\n", in.URL, h.get(in.URL).Status, h.get(in.URL).Panic)
	case "calc":
		code, errS, pan := callCalc(in)
		S := func(n int64) int64 {
			N := int64(len(in.Segs))
			return (n/N)*int64(in.Segs[N-1][1]) + int64(in.Segs[n%N][0])
		}
		exp := expectedCodeSub(S, in.Timescale, in.Codes, in.Rep, in.N)
		fmt.Printf("replay calcStatusCode %s segs=%v ts=%d -> code %d err=%q panic=%q, schedule says %d\n", in.URL, in.Segs, in.Timescale, code, errS, pan, exp)
		switch {
		case pan != "":
			h.c.Fail("replay", panicKey(pan), pan, in)
		case errS != "":
			h.c.Fail("replay", "other-status", errS, in)
		case int64(code) != exp:
			h.c.Fail("replay", "hit", fmt.Sprintf("code %d, schedule says %d", code, exp), in)
		}
	case "traffic":
		a := find(in.Asset)
		r := a.Rep(in.Rep)
		_, plain, strip, _ := h.trafficURL(a, r, in.Pattern, "", in.N, in.NowMS)
		_ = plain
		want := byte(0)
		if !validTraffic(in.Pattern) || strings.HasPrefix(in.SegPart, "/bu") && in.BU >= strings.Count(in.Pattern, ",")+1 {
			want = 'x'
		} else if parts := strings.Split(in.Pattern, ","); in.BU < len(parts) && strings.Contains(in.SegPart, "/bu") {
			if fl := flatten(parsePat(parts[in.BU])); len(fl) > 0 {
				want = fl[(in.NowMS/1000)%int64(len(fl))]
			} else {
				want = 'u'
			}
		}
		plainURL := fmt.Sprintf("/livesim2/%s%s?nowMS=%d", a.Path, in.SegPart, in.NowMS)
		if in.File != "" {
			_, plainURL, strip, _ = trafficURLMode(a, in.Prefix, in.Pattern, fmt.Sprintf("bu%d/", in.BU), in.Rep, in.File, in.NowMS)
		}
		q := &trafficReq{in: in, url: in.URL, plainURL: plainURL, stripURL: strip, want: want, id: "replay"}
		t0 := time.Now()
		q.resp = h.get(q.url)
		q.elapsed = time.Since(t0)
		fmt.Printf("replay %s -> %d %s after %v (state expected: %c)\n", in.URL, q.resp.Status, q.resp.Panic, q.elapsed, want)
		h.finishTraffic(q)
	case "loss":
		var st []itvl
		if ok, _ := regexp.MatchString(`^([udsh][1-9][0-9]*)+$`, in.Pattern); ok {
			st = parsePat(in.Pattern)
		}
		o := observeLoss(in.Pattern, in.Secs)
		fmt.Printf("replay CreateLossItvls(%q) -> err=%v itvls=%v cycle=%d states=%v %s\n", in.Pattern, o.Err, o.Itvls, o.Cycle, o.States, o.Panic)
		h.lossCase(in.Pattern, in.Secs, st, false)
	case "base":
		resp := h.get(in.URL)
		var got []string
		for _, m := range baseURLRe.FindAllStringSubmatch(string(resp.Body), -1) {
			got = append(got, m[1])
		}
		fmt.Printf("replay %s -> %d BaseURLs %v\n", in.URL, resp.Status, got)
		nPat := strings.Count(in.Pattern, ",") + 1
		ok := resp.Status == 200 && len(got) == nPat
		for i := 0; ok && i < nPat; i++ {
			ok = got[i] == fmt.Sprintf("bu%d/", i)
		}
		if !validTraffic(in.Pattern) {
			ok = resp.Status == 400
		}
		if !ok {
			h.c.Fail("replay", "baseurls", fmt.Sprintf("BaseURLs %v", got), in)
		}
	}
}

func run(c *lib.Ctx) error {
	assets, err := lib.LoadBundledAssets(lib.TestVodRoot)
	if err != nil {
		return err
	}
	ls, err := lib.NewLivesim(lib.TestVodRoot, nil)
	if err != nil {
		return err
	}
	h := &harness{c: c, ls: ls, rng: rand.New(rand.NewSource(c.Seed)), dist: map[string]bool{}, base: map[string]baseResp{}, repDef: map[string]string{}, flat: map[*lib.TLRep]string{}}
	// Which calcStatusCode is under test: with the repair 497da16 of the cycle start (model variant true) or
	// without it (a tree in which it is reverted; model variant false, the oracle then reports the defects).
	// Segment 5 of testpic_2s with start_30 is the second segment of the cycle that starts at 8 s: the
	// repaired code answers 404, the code before the repair panics.
	probe := ls.GetRaw("/livesim2/start_30/statuscode_[{cycle:8,rsq:1,code:404}]/testpic_2s/V300/5.m4s?nowMS=42037")
	h.fx = probe.Panic == "" && probe.Status == 404
	if h.fx {
		c.Res.Notes = append(c.Res.Notes, "calcStatusCode under test has the cycle-start repair 497da16: model variant true (theorems C14_status_spec, C14_status_number, ...)")
	} else {
		c.Res.Notes = append(c.Res.Notes, "calcStatusCode under test does not have the cycle-start repair 497da16: model variant false (C14_unrepaired_* theorems); the oracle reports its defects")
	}
	// the loss-pattern parser: a duration of 20 digits does not fit an int; refused by the range check
	if _, err := app.CreateLossItvls("u99999999999999999999d1"); err != nil {
		h.fxLoss = true
	}
	c.Res.Notes = append(c.Res.Notes, fmt.Sprintf("CreateLossItvls refuses durations that do not fit (range check): %v", h.fxLoss))
	// generated subtitle tracks: segment 40 of testpic_2s is the first of its 8 s cycle, not scheduled by rsq 1
	probe = ls.GetRaw("/livesim2/timesubsstpp_en/statuscode_[{cycle:8,rsq:1,code:503}]/testpic_2s/timestpp-en/40.m4s?nowMS=100000")
	h.fxSubs = probe.Panic == "" && probe.Status == 200
	c.Res.Notes = append(c.Res.Notes, fmt.Sprintf("generated subtitle tracks looked up in the reference track by calcStatusCode: %v", h.fxSubs))
	if c.Replay != "" {
		in, err := lib.LoadReplayInput[c14in](c.Replay)
		if err != nil {
			return err
		}
		h.replay(in, assets)
		return nil
	}
	var withAudio []*lib.TLAsset
	for _, a := range assets {
		if a.Ref() != nil {
			withAudio = append(withAudio, a)
		}
	}
	phases := os.Getenv("VERIF_C14_PHASES") // development aid: subset of "sctbl"
	on := func(p string) bool { return phases == "" || strings.Contains(phases, p) }
	if pf := os.Getenv("VERIF_C14_PROF"); pf != "" {
		f, _ := os.Create(pf)
		pprof.StartCPUProfile(f)
		defer pprof.StopCPUProfile()
	}
	finishSlow := func() {}
	if on("t") {
		finishSlow = h.slowSweep(assets[0])
	}
	t0 := time.Now()
	if on("s") {
		h.statusSweep(withAudio)
	}
	if on("f") {
		h.familySweep(withAudio)
	}
	if on("w") {
		if bbb, err := h.loadFlatAsset(lib.TestVodRoot, "bbb_hevc_ac3_8s", "manifest.mpd", [][3]string{{"video_", "1", "video"}, {"audio_", "2", "audio"}}); err == nil {
			h.leadSweep(bbb)
		} else {
			c.Res.Notes = append(c.Res.Notes, "bbb_hevc_ac3_8s not loaded: "+err.Error())
		}
		h.wrapSweep(withAudio)
		h.listSweep(withAudio)
	}
	t1 := time.Now()
	if on("c") {
		h.calcSweep()
	}
	t2 := time.Now()
	if on("t") {
		h.trafficSweep(assets[0])
	}
	t3 := time.Now()
	if on("b") {
		h.baseURLSweep(assets[:2])
		h.mpdShapeSweep(assets[0])
	}
	if on("l") {
		h.lossSweep()
	}
	finishSlow()
	t4 := time.Now()
	c.Res.Notes = append(c.Res.Notes, fmt.Sprintf("harness phases: status %v, calc %v, traffic %v, baseurl+loss %v", t1.Sub(t0).Round(time.Millisecond), t2.Sub(t1).Round(time.Millisecond), t3.Sub(t2).Round(time.Millisecond), t4.Sub(t3).Round(time.Millisecond)))
	c.Res.Evaluations = h.nEval
	c.Res.ModelCases = len(h.terms)
	c.Res.DistinctNontrivial = len(h.dist)
	c.Res.Rule = "statuscode_ x audio x Number/tlnr/tlt on bbb_hevc_ac3_8s, whose VoD audio cut points lead the video boundaries, with cycles starting on those boundaries over several loops; traffic_ MPDs after the stop time (stop_, stoprel_, single and multi period) and before it; statuscode_ on fractional-second loops (29.97 Hz WAVE asset, synthetic NTSC tables) at segment numbers after 125-875 loop wraps with cycles dividing 1001 s; pattern lists whose entries differ in one field, in both orders, and exact duplicates; statuscode_ combined with every other timing/addressing family (ato below/equal/above a segment and inf, tsbd, chunked mode, periods, start, snr, $Time$) and every track kind (video, audio, stored text, thumbnails, generated subtitles); statuscode_: bundled assets (1, 2, 4, ... segments; 2 s, 6 s, 8 s, alternating, 2.002 s) x cycle {3,5,8,30,31} x every rsq up to the number of segments per cycle x every segment over >= 6 cycles; representation filters (*, video id, audio id, no match), video and audio, Number / Timeline-Number / Timeline-Time, two and three simultaneous patterns; start_30, snr_7, start_1000/snr_3 (findings stream); calcStatusCode on random synthetic tables (1-6 segments, irregular durations, 5 timescales). traffic_: every state (up, down, slow, hang) crossed with every delivery mode (chunked low latency video/audio, audio, encrypted, generated subtitles, stored text, thumbnails, $Time$, ato/tsbd); every pattern of 1-4 intervals over {u,d} with durations 1-3 at every second of 3 cycles, three patterns per URL selected by bu<i>; s/h patterns recognised by their delay; all patterns over {u,d,s,h} and random strings through CreateLossItvls/StateAt; BaseURL elements of every Period of the MPD under every MPD shape (1..3 Periods, continuous, three addressing modes, MPD variants with subtitles/thumbnails/endNumber, generated subtitles, ato, start/snr) and a segment behind each BaseURL. distinct = distinct (configuration, request) pairs for which the oracle confirmed the prescribed answer"
	keys := make([]string, 0, len(c.Res.Inputs))
	for k := range c.Res.Inputs {
		keys = append(keys, k)
	}
	sort.Slice(keys, func(i, j int) bool { a, _ := strconv.Atoi(keys[i]); b, _ := strconv.Atoi(keys[j]); return a < b })
	for i := 0; i < 4 && len(keys) > 0; i++ {
		k := keys[(i*7919+13)%len(keys)]
		c.Sample(c.Res.Inputs[k])
	}
	imports := "From Verif Require Import GoSem Timeline Fault CorrC14."
	shard := 400
	for s := 0; s*shard < len(h.terms); s++ {
		e := min((s+1)*shard, len(h.terms))
		c.WriteCases(fmt.Sprintf("cases_C14_%d.v", s), lib.CasesFile(imports, "c14case", h.defs.String(), h.terms[s*shard:e], "model_view"))
	}
	return nil
}
