package main

// Part B: complete servers (app.SetupServer) over a scratch copy of the bundled assets plus a few
// generated and modified ones.  Instances: scan / write (shared root) / cache (shared root) /
// write (separate root) / cache (separate root) / cache with damaged files.  Every instance gets the
// same request list; every response is byte-compared with the scanning server's.

import (
	"bytes"
	"crypto/sha256"
	"fmt"
	"io/fs"
	"math/rand"
	"net/url"
	"os"
	"path/filepath"
	"sort"
	"strconv"
	"strings"

	"github.com/Dash-Industry-Forum/livesim2/cmd/livesim2/app"
	"github.com/Eyevinn/mp4ff/mp4"
	"verifharness/lib"
)

type bundledInput struct {
	Part     string  `json:"part"`     // "bundled"
	Instance string  `json:"instance"` // write-shared | cache-shared | write-separate | cache-separate | cache-damaged
	Damage   *damage `json:"damage,omitempty"`
	URL      string  `json:"url,omitempty"` // "" = asset list / cache files
}

// genPath is the asset path of a structured layout inside the scratch vod root.
func genPath(l layout) string {
	if l.Asset != "x/"+l.Note {
		return "gen/" + strings.TrimPrefix(l.Asset, "x/")
	}
	return "gen/" + l.Note
}

// esc escapes a slash-separated path for use in a request URL (non-ASCII names, spaces).
func esc(p string) string { return (&url.URL{Path: p}).EscapedPath() }

func copyTree(src, dst string) error {
	return filepath.WalkDir(src, func(p string, d fs.DirEntry, err error) error {
		if err != nil {
			return err
		}
		rel, _ := filepath.Rel(src, p)
		if d.IsDir() {
			return os.MkdirAll(filepath.Join(dst, rel), 0o755)
		}
		b, err := os.ReadFile(p)
		if err != nil {
			return err
		}
		return os.WriteFile(filepath.Join(dst, rel), b, 0o644)
	})
}

// generatedOnDisk: layouts (by note) that are rendered into the scratch vod root next to the bundled assets.
var generatedOnDisk = []string{"plain-av", "loop-whole-ms-90k", "loop-not-whole-ms-90k", "loop-1001-odd", "loop-one-tick-off",
	"two-video-same", "two-video-differ", "two-video-differ-1ms", "time-plain", "thumbs", "gap-in-files", "two-mpds", "video-text", "text-shorter",
	"thumbs-overhang-4s", "thumbs-overhang-1ms", "thumbs-exact-3x2000ms", "id-slash", "id-case", "id-cyrillic", "id-space", "asset-path-cyrillic", "hi-ts-10mhz-equal", "hi-ts-9mhz-below-1us", "hi-ts-10mhz-one-tick-text",
	"time-audio-plain", "time-audio-gap", "time-audio-overlap", "time-audio-second-later", "number-video-time-audio-gap"}

// expected admission of the generated layouts (property text: not a whole number of ms, or
// representations of the reference type disagree => left out)
var expectLeftOut = map[string]bool{"loop-not-whole-ms-90k": true, "loop-1001-odd": true, "loop-one-tick-off": true,
	"two-video-differ": true, "two-video-differ-1ms": true, "text-shorter": true,
	"thumbs-overhang-4s": true, "thumbs-overhang-1ms": true, "hi-ts-9mhz-below-1us": true, "hi-ts-10mhz-one-tick-text": true,
	"time-audio-gap": true, "time-audio-overlap": true, "time-audio-second-later": true, "number-video-time-audio-gap": true}

func setupVod(vod string) error {
	if err := copyTree(lib.TestVodRoot, vod); err != nil {
		return err
	}
	// remove metadata files that may lie around in the bundled tree
	_ = filepath.WalkDir(vod, func(p string, d fs.DirEntry, err error) error {
		if err == nil && !d.IsDir() && (strings.HasSuffix(p, "_data.json.gz") || strings.HasSuffix(p, "_data.json")) {
			_ = os.Remove(p)
		}
		return nil
	})
	want := map[string]bool{}
	for _, n := range generatedOnDisk {
		want[n] = true
	}
	for _, l := range structuredLayouts() {
		if !want[l.Note] {
			continue
		}
		l.Asset = genPath(l)
		for k, v := range l.render() {
			p := filepath.Join(vod, k)
			if err := os.MkdirAll(filepath.Dir(p), 0o755); err != nil {
				return err
			}
			if err := os.WriteFile(p, v.Data, 0o644); err != nil {
				return err
			}
		}
	}
	// the shared catalogue of generated layouts (harness/lib/assetgen_layouts.go): real avc1/AAC/stpp
	// media, $Number$ and $Time$, good, borderline (x_*) and inadmissible (bad_*) ones
	for _, gl := range lib.GenCatalogue() {
		a := gl.Asset
		a.Name = "cat/" + a.Name
		if err := lib.WriteAsset(vod, a); err != nil {
			return fmt.Errorf("catalogue asset %s: %w", a.Name, err)
		}
	}
	// modified copies of a bundled asset: a dropped and a duplicated segment file
	for _, m := range []struct{ name, op string }{{"mod/dropV", "dropV"}, {"mod/dropA", "dropA"}, {"mod/dupV", "dupV"}} {
		dst := filepath.Join(vod, m.name)
		if err := copyTree(filepath.Join(lib.TestVodRoot, "testpic_2s"), dst); err != nil {
			return err
		}
		for _, extra := range []string{"Manifest_thumbs.mpd", "Manifest_imsc1.mpd", "Manifest_endNumber.mpd"} {
			_ = os.Remove(filepath.Join(dst, extra))
		}
		switch m.op {
		case "dropV":
			_ = os.Remove(filepath.Join(dst, "V300", "4.m4s"))
		case "dropA":
			_ = os.Remove(filepath.Join(dst, "A48", "4.m4s"))
		case "dupV":
			b, err := os.ReadFile(filepath.Join(dst, "V300", "4.m4s"))
			if err != nil {
				return err
			}
			_ = os.WriteFile(filepath.Join(dst, "V300", "5.m4s"), b, 0o644)
		}
	}
	return nil
}

func newServer(vod, repRoot string, write bool) (ls *lib.Livesim, err error, panicMsg string) {
	defer func() {
		if r := recover(); r != nil {
			panicMsg = fmt.Sprint(r)
		}
	}()
	ls, err = lib.NewLivesim(vod, func(cfg *app.ServerConfig) {
		cfg.RepDataRoot = repRoot
		cfg.WriteRepData = write
	})
	return
}

// requestList derives the URLs from the scanning server's asset dump.
func requestList(assets []app.VerifC15Asset, thorough bool) []string {
	var urls []string
	for _, a := range assets {
		loop := int64(a.LoopDurMS)
		if loop <= 0 {
			continue
		}
		nows := []int64{100_000, 10*loop + 1, 3_600_000 + 7, 1_700_000_000_123}
		if thorough {
			nows = append(nows, 7*loop-1, 7*loop, 86_400_000, 1_900_000_000_000)
		}
		for _, mpd := range a.MPDs {
			for _, now := range nows {
				for _, pre := range []string{"", "segtimeline_1/", "segtimelinenr_1/"} {
					urls = append(urls, fmt.Sprintf("/livesim2/%s%s/%s?nowMS=%d", pre, esc(a.AssetPath), esc(mpd), now))
				}
			}
		}
		var ref *app.VerifC15Rep
		for i := range a.Reps {
			if a.Reps[i].ID == a.RefRep {
				ref = &a.Reps[i]
			}
		}
		for _, r := range a.Reps {
			if r.InitURI != "" {
				urls = append(urls, fmt.Sprintf("/livesim2/%s/%s", esc(a.AssetPath), esc(r.InitURI)))
			}
			n := int64(len(r.Segments))
			if n == 0 || r.MediaTimescale == 0 {
				continue
			}
			for ni, now := range nows {
				// last K segments before now, K covering more than a loop for the second instant
				k := int64(3)
				if ni == 1 {
					k = n + 2
					if !thorough && k > 12 {
						k = 12
					}
				}
				if strings.Contains(r.MediaURI, "$Number$") {
					segMS := loop / n
					if ref != nil && len(ref.Segments) > 0 {
						segMS = loop / int64(len(ref.Segments))
					}
					if segMS <= 0 {
						continue
					}
					last := now/segMS - 1
					for nr := last - k + 1; nr <= last+1; nr++ {
						if nr < 0 {
							continue
						}
						u := strings.ReplaceAll(r.MediaURI, "$Number$", strconv.FormatInt(nr, 10))
						urls = append(urls, fmt.Sprintf("/livesim2/%s/%s?nowMS=%d", esc(a.AssetPath), esc(u), now))
					}
				} else {
					// $Time$: times of the segments that end before now
					wrapTicks := loop * int64(r.MediaTimescale) / 1000
					nowTicks := now * int64(r.MediaTimescale) / 1000
					wraps := nowTicks / wrapTicks
					cnt := int64(0)
					for w := wraps; w >= 0 && w >= wraps-2 && cnt < k; w-- {
						for i := n - 1; i >= 0 && cnt < k; i-- {
							if w*wrapTicks+int64(r.Segments[i].EndTime) <= nowTicks {
								t := w*wrapTicks + int64(r.Segments[i].StartTime)
								u := strings.ReplaceAll(r.MediaURI, "$Time$", strconv.FormatInt(t, 10))
								urls = append(urls, fmt.Sprintf("/livesim2/segtimeline_1/%s/%s?nowMS=%d", esc(a.AssetPath), esc(u), now))
								cnt++
							}
						}
					}
				}
			}
		}
	}
	return urls
}

type bundledEnv struct {
	c           *lib.Ctx
	vod         string
	scan        *lib.Livesim
	scanAs      []app.VerifC15Asset
	urls        []string
	scanRes     map[string]respSum // digests only: the bodies of ~10^4 responses are not kept in memory
	n           int
	nNontrivial int
}

// respSum is what is compared of a response: status or panic, content type, length and SHA-256 of the body.
type respSum struct {
	Status int
	Panic  string
	CType  string
	Len    int
	Sum    [32]byte
}

func sumOf(r lib.Resp) respSum {
	return respSum{Status: r.Status, Panic: r.Panic, CType: r.Header.Get("Content-Type"), Len: len(r.Body), Sum: sha256.Sum256(r.Body)}
}

func (r respSum) key() string {
	if r.Panic != "" {
		return "panic:" + r.Panic
	}
	return fmt.Sprintf("%d", r.Status)
}

func respKey(r lib.Resp) string {
	if r.Panic != "" {
		return "panic:" + r.Panic
	}
	return fmt.Sprintf("%d", r.Status)
}

// compare issues the request list against an instance and compares with the scanning server.
func (e *bundledEnv) compare(ls *lib.Livesim, in bundledInput, keyPrefix string, urls []string) {
	defer memdbg("after instance " + in.Instance)
	as := app.VerifC15Assets(ls.Srv)
	dasset := ""
	if in.Damage != nil {
		dasset = in.Damage.Asset
	}
	if servedView(as) != servedView(e.scanAs) {
		sym, what := describeDiffFor(e.scanAs, as, dasset)
		e.c.Fail("B:"+in.Instance+":assets", keyPrefix+":"+sym, what, in)
	}
	e.n++
	reported := map[string]bool{}
	for _, u := range urls {
		want, ok := e.scanRes[u]
		if !ok {
			want = sumOf(e.scan.GetRaw(u))
		}
		got := sumOf(ls.GetRaw(u))
		e.n++
		if want.Status == 200 {
			e.nNontrivial++ // a distinct (instance, URL) pair whose scan response carries content
		}
		if want == got {
			continue
		}
		sym := "body-differs"
		switch {
		case got.Panic != "" && want.Panic == "":
			sym = "panic:" + got.Panic
		case want.Status != got.Status:
			sym = fmt.Sprintf("status-%d-instead-of-%d", got.Status, want.Status)
		}
		if dasset != "" && !strings.Contains(u, "/"+dasset+"/") {
			sym = "other-asset-" + sym
		}
		key := keyPrefix + ":served:" + sym
		if reported[key] {
			continue
		}
		reported[key] = true
		i2 := in
		i2.URL = u
		e.c.Fail("B:"+in.Instance+":"+u, key, fmt.Sprintf("%s: scanning server %s (%d bytes), this server %s (%d bytes)", u, want.key(), want.Len, got.key(), got.Len), i2)
	}
}

func cacheFiles(root string) map[string][]byte {
	out := map[string][]byte{}
	for k, v := range readTree(root) {
		if strings.HasSuffix(k, "_data.json.gz") || strings.HasSuffix(k, "_data.json") {
			out[k] = v
		}
	}
	return out
}

func setupBundled(c *lib.Ctx, scratch string) (*bundledEnv, error) {
	vod := filepath.Join(scratch, "vod")
	if err := setupVod(vod); err != nil {
		return nil, err
	}
	scan, err, pm := newServer(vod, "", false)
	if pm != "" {
		c.Fail("B:scan", "panic:loader:"+firstWords(pm), "scanning server panicked at start: "+pm, bundledInput{Part: "bundled", Instance: "scan"})
		return nil, nil
	}
	if err != nil {
		return nil, fmt.Errorf("scan server: %w", err)
	}
	e := &bundledEnv{c: c, vod: vod, scan: scan, scanAs: app.VerifC15Assets(scan.Srv), scanRes: map[string]respSum{}}
	e.urls = requestList(e.scanAs, c.Thorough())
	e.urls = append(e.urls, "/livesim2/no/such/asset/Manifest.mpd?nowMS=100000")
	for _, u := range e.urls {
		e.scanRes[u] = sumOf(scan.GetRaw(u))
	}
	return e, nil
}

var nBDistinct int

func runBundled(c *lib.Ctx, scratch string, rng *rand.Rand) (int, error) {
	e, err := setupBundled(c, scratch)
	if err != nil || e == nil {
		return 0, err
	}
	nOK := 0
	for _, r := range e.scanRes {
		if r.Status == 200 {
			nOK++
		}
	}
	c.Count("B:urls")
	c.Res.Distribution["B:urls"] = len(e.urls)
	c.Res.Distribution["B:urls-200-on-scan"] = nOK
	c.Res.Distribution["B:assets-served"] = len(e.scanAs)

	// admission of generated layouts, as the property states it
	served := map[string]bool{}
	for _, a := range e.scanAs {
		served[a.AssetPath] = true
	}
	for _, n := range generatedOnDisk {
		gp := "gen/" + n
		for _, l := range structuredLayouts() {
			if l.Note == n {
				gp = genPath(l)
			}
		}
		in := bundledInput{Part: "bundled", Instance: "scan", URL: gp}
		if expectLeftOut[n] && served[gp] {
			c.Fail("B:scan:gen/"+n, "admission:served-although-"+n, "generated asset gen/"+n+" must be left out but is served", in)
		}
		if !expectLeftOut[n] && !served[gp] {
			c.Fail("B:scan:gen/"+n, "admission:left-out-although-"+n, "generated asset gen/"+n+" is well-formed but not served", in)
		}
	}
	for _, gl := range lib.GenCatalogue() {
		name := "cat/" + gl.Asset.Name
		in := bundledInput{Part: "bundled", Instance: "scan", URL: name}
		c.Count("B:catalogue:" + gl.Class)
		if gl.Class == "ok" && !served[name] {
			c.Fail("B:scan:"+name, "admission:left-out-although-catalogue-ok", "catalogue asset "+name+" ("+gl.Note+") is well-formed but not served", in)
		}
		if gl.Class == "bad" && served[name] {
			c.Fail("B:scan:"+name, "admission:served-although-catalogue-bad", "catalogue asset "+name+" ("+gl.Note+") must be left out but is served", in)
		}
	}
	sr := &synRunner{c: c, admit: map[string]int{}}
	tm := map[string]bool{"testpic_alt_seg_dur_stl/V300": true, "testpic_alt_seg_dur_stl/A48": true, "gen/time-plain/V1": true}
	sr.checkServed("B:scan:assets", e.scanAs, bundledInput{Part: "bundled", Instance: "scan"}, tm)
	// independent parse of the bundled representations (harness/lib/vod.go) against the loaded tables
	for _, a := range e.scanAs {
		for _, r := range a.Reps {
			if r.ContentType == "image" || !strings.Contains(r.MediaURI, "$Number$") || strings.HasPrefix(a.AssetPath, "gen/") {
				continue
			}
			dir := filepath.Join(e.vod, a.AssetPath, filepath.Dir(r.MediaURI))
			if filepath.Base(r.InitURI) != "init.mp4" || filepath.Dir(r.InitURI) != filepath.Dir(r.MediaURI) {
				continue
			}
			vr, _, err := lib.LoadVodRep(dir, r.ID)
			if err != nil {
				c.Res.Notes = append(c.Res.Notes, "independent parse failed for "+dir+": "+err.Error())
				continue
			}
			c.Count("B:independent-parse")
			ok := len(vr.Segs) == len(r.Segments) && int(vr.Timescale) == r.MediaTimescale
			for k := 0; ok && k < len(vr.Segs); k++ {
				// the loader replaces every end but the last by the next start
				end := vr.Segs[k].End
				if k+1 < len(vr.Segs) {
					end = vr.Segs[k+1].Start
				}
				ok = uint64(vr.Segs[k].Start) == r.Segments[k].StartTime && uint64(end) == r.Segments[k].EndTime
			}
			if !ok {
				c.Fail("B:scan:"+a.AssetPath+"/"+r.ID, "table:independent-parse", fmt.Sprintf("loaded table of %s/%s differs from the harness's own parse of the files", a.AssetPath, r.ID),
					bundledInput{Part: "bundled", Instance: "scan", URL: a.AssetPath + "/" + r.ID})
			}
		}
	}

	e.checkTiming()

	// write, shared root
	rd := filepath.Join(scratch, "rd")
	type inst struct {
		name, root string
		write      bool
	}
	for _, it := range []inst{{"write-shared", e.vod, true}, {"cache-shared", e.vod, false}, {"write-separate", rd, true}, {"cache-separate", rd, false}} {
		ls, err, pm := newServer(e.vod, it.root, it.write)
		in := bundledInput{Part: "bundled", Instance: it.name}
		if pm != "" || err != nil {
			c.Fail("B:"+it.name, "start:"+it.name, fmt.Sprintf("server does not start: %v %s", err, pm), in)
			continue
		}
		c.Count("B:instance:" + it.name)
		e.compare(ls, in, it.name, e.urls)
	}
	shared, separate := cacheFiles(e.vod), cacheFiles(rd)
	if !sameTree(shared, separate) {
		c.Fail("B:files", "files:shared-vs-separate", "cache files written into the vod root and into a separate root differ", bundledInput{Part: "bundled", Instance: "write-separate"})
	}
	if len(separate) == 0 {
		c.Fail("B:files", "files:none-written", "write mode wrote no cache file", bundledInput{Part: "bundled", Instance: "write-separate"})
	}
	c.Res.Distribution["B:cache-files"] = len(separate)
	// second write: idempotent
	if ls, err, pm := newServer(e.vod, rd, true); err == nil && pm == "" {
		_ = ls
		if !sameTree(separate, cacheFiles(rd)) {
			c.Fail("B:files", "idempotence:files-differ", "a second write-mode start produced different cache files", bundledInput{Part: "bundled", Instance: "write-separate"})
		}
		c.Count("B:instance:rewrite")
	}

	// damaged caches
	var keys []string
	for k := range separate {
		keys = append(keys, k)
	}
	sort.Strings(keys)
	dmgs := []damage{
		{Kind: "truncate", Asset: "testpic_2s", Rep: "V300", Offset: len(separate["testpic_2s/V300_data.json.gz"]) / 2},
		{Kind: "truncate", Asset: "testpic_2s", Rep: "A48", Offset: 0},
		{Kind: "delete", Asset: "testpic_2s", Rep: "V300"},
		{Kind: "plain", Asset: "testpic_8s", Rep: "V300"},
		{Kind: "delete-all", Asset: "testpic_6s"},
		{Kind: "type-error", Asset: "testpic_2s", Rep: "V300", Offset: 0},
		{Kind: "type-error", Asset: "testpic_2s", Rep: "A48", Offset: 4},
		{Kind: "stale-init", Asset: "testpic_2s", Rep: "A48"},
		{Kind: "stale-empty", Asset: "testpic_8s", Rep: "V300"},
		{Kind: "stale-timescale", Asset: "testpic_6s", Rep: "V300"},
	}
	nRand := 5
	if c.Thorough() {
		nRand = 40
	}
	kinds := []string{"flip", "truncate", "empty-gz", "plain-garbage", "delete", "truncate", "flip", "type-error", "stale-media"}
	for i := 0; i < nRand; i++ {
		k := keys[rng.Intn(len(keys))]
		d := damage{Kind: kinds[i%len(kinds)], Asset: filepath.Dir(k), Rep: strings.TrimSuffix(filepath.Base(k), "_data.json.gz")}
		n := len(separate[k])
		switch d.Kind {
		case "truncate":
			d.Offset = []int{1, 10, n / 3, n - 8, n - 1}[rng.Intn(5)]
		case "flip":
			d.Offset = rng.Intn(n)
		case "type-error":
			d.Offset = rng.Intn(6)
		}
		dmgs = append(dmgs, d)
	}
	for i, d := range dmgs {
		d := d
		e.runDamaged(scratch, rd, d, i, e.urls)
	}
	e.runHistory(scratch)
	nBDistinct = e.nNontrivial
	return e.n, nil
}

// runDamaged starts a cache-only server over a damaged copy of the cache directory.
func (e *bundledEnv) runDamaged(scratch, rd string, d damage, i int, urls []string) {
	c := e.c
	ddir := filepath.Join(scratch, fmt.Sprintf("rd_d%d", i))
	if err := copyTree(rd, ddir); err != nil {
		return
	}
	defer os.RemoveAll(ddir)
	if err := applyDamage(ddir, d); err != nil {
		return
	}
	in := bundledInput{Part: "bundled", Instance: "cache-damaged", Damage: &d}
	ls, err, pm := newServer(e.vod, ddir, false)
	if pm != "" || err != nil {
		c.Fail("B:cache-damaged", "damaged-cache:start", fmt.Sprintf("server does not start with damaged cache (%v): %v %s", d, err, pm), in)
		return
	}
	c.Count("B:instance:cache-damaged:" + d.Kind)
	seen, _ := cacheObs(ddir, d.Asset, d.Rep)
	// requests for the asset concerned and a sample of the others
	var sel []string
	for j, u := range urls {
		if strings.Contains(u, "/"+d.Asset+"/") || j%7 == 0 {
			sel = append(sel, u)
		}
	}
	e.compare(ls, in, "damaged-cache:"+seen, sel)
}

func replayBundled(c *lib.Ctx, scratch string, in bundledInput) error {
	e, err := setupBundled(c, scratch)
	if err != nil || e == nil {
		return err
	}
	rd := filepath.Join(scratch, "rd")
	if _, err, pm := newServer(e.vod, rd, true); err != nil || pm != "" {
		return fmt.Errorf("write server: %v %s", err, pm)
	}
	urls := e.urls
	if in.URL != "" && strings.HasPrefix(in.URL, "/") {
		urls = []string{in.URL}
	}
	switch in.Instance {
	case "cache-damaged":
		if in.Damage == nil {
			return fmt.Errorf("no damage in replay")
		}
		e.runDamaged(scratch, rd, *in.Damage, 0, urls)
	case "cache-separate", "write-separate":
		ls, err, pm := newServer(e.vod, rd, in.Instance == "write-separate")
		if err != nil || pm != "" {
			return fmt.Errorf("server: %v %s", err, pm)
		}
		e.compare(ls, in, in.Instance, urls)
	case "cache-shared", "write-shared":
		if _, err, pm := newServer(e.vod, e.vod, true); err != nil || pm != "" {
			return fmt.Errorf("write server: %v %s", err, pm)
		}
		ls, err, pm := newServer(e.vod, e.vod, in.Instance == "write-shared")
		if err != nil || pm != "" {
			return fmt.Errorf("server: %v %s", err, pm)
		}
		e.compare(ls, in, in.Instance, urls)
	default:
		// scan-level findings (admission of generated layouts, tables): re-evaluated by a full run
		_, err := runBundled(c, filepath.Join(scratch, "r"), rand.New(rand.NewSource(c.Seed)))
		return err
	}
	for _, f := range c.Res.OracleFailures {
		fmt.Printf("replay C15: %s: %s\n", f.Key, f.What)
	}
	return nil
}

// tfdtOf returns the decode time of the first fragment of a served media segment.
func tfdtOf(body []byte) (uint64, bool) {
	f, err := mp4.DecodeFile(bytes.NewReader(body))
	if err != nil || len(f.Segments) == 0 || len(f.Segments[0].Fragments) == 0 {
		return 0, false
	}
	fr := f.Segments[0].Fragments[0]
	if fr.Moof == nil || fr.Moof.Traf == nil || fr.Moof.Traf.Tfdt == nil {
		return 0, false
	}
	return fr.Moof.Traf.Tfdt.BaseMediaDecodeTime(), true
}

// checkTiming evaluates "left out rather than served with wrong timing" on the scanning server:
// with $Number$ addressing, segment n of every video/text representation of a served asset must
// start at the same media instant as segment n of the reference representation, also after the
// loop wrapped (audio is re-segmented against the reference by design and is compared in C03).
func (e *bundledEnv) checkTiming() {
	for _, a := range e.scanAs {
		var ref *app.VerifC15Rep
		for i := range a.Reps {
			if a.Reps[i].ID == a.RefRep {
				ref = &a.Reps[i]
			}
		}
		if ref == nil || !strings.Contains(ref.MediaURI, "$Number$") || len(ref.Segments) == 0 || a.LoopDurMS <= 0 {
			continue
		}
		segMS := int64(a.LoopDurMS) / int64(len(ref.Segments))
		if segMS <= 0 {
			continue
		}
		now := 10*int64(a.LoopDurMS) + 1
		last := now/segMS - 1
		get := func(r *app.VerifC15Rep, nr int64) (uint64, int) {
			u := fmt.Sprintf("/livesim2/%s/%s?nowMS=%d", esc(a.AssetPath), esc(strings.ReplaceAll(r.MediaURI, "$Number$", strconv.FormatInt(nr, 10))), now)
			resp := e.scan.GetRaw(u)
			e.n++
			if resp.Status != 200 {
				return 0, resp.Status
			}
			t, ok := tfdtOf(resp.Body)
			if !ok {
				return 0, -1
			}
			return t, 200
		}
		for i := range a.Reps {
			r := &a.Reps[i]
			if r.ID == ref.ID || r.ContentType == "audio" || r.ContentType == "image" || !strings.Contains(r.MediaURI, "$Number$") || r.MediaTimescale == 0 {
				continue
			}
			if len(r.Segments) != len(ref.Segments) {
				continue // another segment grid: numbers do not correspond (equal loop duration is the admission clause)
			}
			e.c.Count("B:timing-rep:" + r.ContentType)
			for nr := last - int64(len(ref.Segments)) - 2; nr <= last; nr++ {
				if nr < 0 {
					continue
				}
				tr, st1 := get(ref, nr)
				tt, st2 := get(r, nr)
				if st1 != st2 {
					e.c.Fail("B:scan:timing:"+a.AssetPath+"/"+r.ID, "admission:wrong-timing:"+r.ContentType+"-disagrees-with-reference",
						fmt.Sprintf("asset %s is served although %s (%s, %d segments) and the reference %s (%d segments) disagree in duration: at nowMS=%d segment %d of %s gives %d, of %s gives %d",
							a.AssetPath, r.ID, r.ContentType, len(r.Segments), ref.ID, len(ref.Segments), now, nr, ref.ID, st1, r.ID, st2),
						bundledInput{Part: "bundled", Instance: "scan", URL: a.AssetPath + "/" + r.ID})
					break
				}
				if st1 != 200 {
					continue
				}
				// same instant: tt/ts_r == tr/ts_ref
				if tt*uint64(ref.MediaTimescale) != tr*uint64(r.MediaTimescale) {
					e.c.Fail("B:scan:timing:"+a.AssetPath+"/"+r.ID, "admission:wrong-timing:"+r.ContentType+"-disagrees-with-reference",
						fmt.Sprintf("asset %s is served although %s (%s, %d segments) and the reference %s (%d segments) disagree in duration: segment %d of %s starts at %d/%d s, of %s at %d/%d s (nowMS=%d)",
							a.AssetPath, r.ID, r.ContentType, len(r.Segments), ref.ID, len(ref.Segments), nr, r.ID, tt, r.MediaTimescale, ref.ID, tr, ref.MediaTimescale, now),
						bundledInput{Part: "bundled", Instance: "scan", URL: a.AssetPath + "/" + r.ID})
					break
				}
			}
		}
	}
}

// runHistory: several server starts over ONE metadata directory while the asset changes:
// write (asset with two segments) -> two more segments are added -> write -> one file is truncated ->
// write -> cache-only server. The cache-only server must serve what a scanning server serves for the
// asset as it is now, and the files must be those of a write run into an empty directory.
func (e *bundledEnv) runHistory(scratch string) {
	c := e.c
	for _, shared := range []bool{false, true} {
		name := "history-separate"
		if shared {
			name = "history-shared"
		}
		in := bundledInput{Part: "bundled", Instance: name}
		hvod := filepath.Join(scratch, name, "vod")
		hrd := filepath.Join(scratch, name, "rd")
		fresh := filepath.Join(scratch, name, "fresh")
		if shared {
			hrd = hvod
		}
		dst := filepath.Join(hvod, "grow")
		if err := copyTree(filepath.Join(lib.TestVodRoot, "testpic_2s"), dst); err != nil {
			return
		}
		for _, extra := range []string{"Manifest_thumbs.mpd", "Manifest_imsc1.mpd", "Manifest_endNumber.mpd"} {
			_ = os.Remove(filepath.Join(dst, extra))
		}
		held := map[string][]byte{}
		for _, rep := range []string{"V300", "A48"} {
			for _, n := range []string{"3.m4s", "4.m4s"} {
				p := filepath.Join(dst, rep, n)
				held[p], _ = os.ReadFile(p)
				_ = os.Remove(p)
			}
		}
		if _, err, pm := newServer(hvod, hrd, true); err != nil || pm != "" {
			c.Fail("B:"+name, "start:"+name, fmt.Sprintf("write run 1: %v %s", err, pm), in)
			continue
		}
		for p, b := range held {
			_ = os.WriteFile(p, b, 0o644)
		}
		if _, err, pm := newServer(hvod, hrd, true); err != nil || pm != "" {
			c.Fail("B:"+name, "start:"+name, fmt.Sprintf("write run 2: %v %s", err, pm), in)
			continue
		}
		// one file cut in half, then a third write run
		vf := filepath.Join(hrd, "grow", "V300_data.json.gz")
		if b, err := os.ReadFile(vf); err == nil {
			_ = os.WriteFile(vf, b[:len(b)/2], 0o644)
		}
		if _, err, pm := newServer(hvod, hrd, true); err != nil || pm != "" {
			c.Fail("B:"+name, "start:"+name, fmt.Sprintf("write run 3: %v %s", err, pm), in)
			continue
		}
		if !shared {
			if _, err, pm := newServer(hvod, fresh, true); err == nil && pm == "" {
				if !sameTree(cacheFiles(hrd), cacheFiles(fresh)) {
					c.Fail("B:"+name+":files", "history:write-does-not-refresh", "after write / asset grows / write / file truncated / write the metadata files differ from those of a write run into an empty directory", in)
				}
			}
		}
		scan, err, pm := newServer(hvod, "", false)
		if err != nil || pm != "" {
			continue
		}
		ro, err, pm := newServer(hvod, hrd, false)
		if err != nil || pm != "" {
			c.Fail("B:"+name, "start:"+name, fmt.Sprintf("cache-only server: %v %s", err, pm), in)
			continue
		}
		c.Count("B:instance:" + name)
		scanAs := app.VerifC15Assets(scan.Srv)
		sub := &bundledEnv{c: c, vod: hvod, scan: scan, scanAs: scanAs, scanRes: map[string]respSum{}}
		sub.compare(ro, in, "history", requestList(scanAs, false))
		e.n += sub.n
	}
}
