package main

// Generator of asset layouts: structured families first (one per branch of the loader and of the
// admission check, both sides of each condition), then random combinations.

import (
	"fmt"
	"math/rand"
	"strings"
)

func p32(v uint32) *uint32 { return &v }
func p64(v uint64) *uint64 { return &v }

const numberMedia = "$RepresentationID$/$Number$.m4s"
const timeMedia = "$RepresentationID$/$Time$.m4s"
const initPat = "$RepresentationID$/init.mp4"

// segsOpt controls the files of one representation.
type segsOpt struct {
	n        int    // number of segments
	startNr  uint32 // number of the first file
	start    uint64 // tfdt of the first segment
	sampleD  uint32 // sample duration
	count    int    // samples per segment
	enc      string
	timeName bool // name files by start time instead of number
	vary     bool // last sample of each segment one tick longer (no common sample duration)
}

func mkSegs(o segsOpt) []segSpec {
	var out []segSpec
	t := o.start
	for i := 0; i < o.n; i++ {
		durs := make([]uint32, o.count)
		for j := range durs {
			durs[j] = o.sampleD
		}
		if o.vary && o.count > 0 {
			durs[o.count-1]++
		}
		name := fmt.Sprintf("%d.m4s", o.startNr+uint32(i))
		if o.timeName {
			name = fmt.Sprintf("%d.m4s", t)
		}
		enc := o.enc
		if o.vary {
			enc = "trun"
		}
		out = append(out, segSpec{Kind: "ok", Name: name, Tfdt: t, Durs: durs, Enc: enc})
		for _, d := range durs {
			t += uint64(d)
		}
	}
	return out
}

func segTotal(s segSpec) uint64 {
	var t uint64
	for _, d := range s.Durs {
		t += uint64(d)
	}
	return t
}

// timelineOf builds the SegmentTimeline that matches the files (run-length compressed).
func timelineOf(segs []segSpec) []sEntry {
	var out []sEntry
	for i, s := range segs {
		d := segTotal(s)
		if n := len(out); n > 0 && out[n-1].D == d {
			out[n-1].R++
			continue
		}
		e := sEntry{D: d}
		if i == 0 {
			e.T = p64(s.Tfdt)
		}
		out = append(out, e)
	}
	return out
}

func videoSet(reps ...repSpec) asSpec {
	return asSpec{ContentType: "video", Codecs: "hvc1.1.6.L93.B0", Media: numberMedia, Init: initPat, Reps: reps}
}
func audioSet(reps ...repSpec) asSpec {
	return asSpec{ContentType: "audio", Codecs: "ac-3", Media: numberMedia, Init: initPat, Reps: reps}
}
func textSet(reps ...repSpec) asSpec {
	return asSpec{ContentType: "text", Codecs: "stpp", Media: numberMedia, Init: initPat, Reps: reps}
}

// plain video representation: n segments of segDur ticks at timescale ts
func vrep(id string, ts uint32, n int, sampleD uint32, count int, enc string) repSpec {
	return repSpec{ID: id, Timescale: ts, TrexDur: sampleD, Segs: mkSegs(segsOpt{n: n, startNr: 1, sampleD: sampleD, count: count, enc: enc})}
}
func arep(id string, n int, count int) repSpec {
	return repSpec{ID: id, Timescale: 48000, TrexDur: 0, Segs: mkSegs(segsOpt{n: n, startNr: 1, sampleD: 1536, count: count, enc: "tfhd"})}
}

func one(name string, sets ...asSpec) layout {
	return layout{Asset: "x/" + name, Note: name, MPDs: []mpdSpec{{Name: "Manifest.mpd", Kind: "ok", Sets: sets}}}
}

// structuredLayouts: every branch once, with a name that goes into the distribution.
func structuredLayouts() []layout {
	var ls []layout
	add := func(l layout) { ls = append(ls, l) }

	// --- plain, admitted
	add(one("plain-av", audioSet(arep("A1", 3, 62)), videoSet(vrep("V1", 1000, 3, 40, 50, "trex"))))
	add(one("plain-trun", videoSet(vrep("V1", 90000, 4, 3000, 60, "trun"))))
	add(one("plain-tfhd", videoSet(vrep("V1", 90000, 4, 3000, 60, "tfhd"))))
	add(one("two-video-same", videoSet(vrep("V1", 1000, 3, 40, 50, "trex"), vrep("V2", 90000, 3, 3600, 50, "tfhd"))))
	add(one("video-text", videoSet(vrep("V1", 1000, 3, 40, 50, "trex")), textSet(vrep("T1", 1000, 3, 2000, 1, "trun"))))
	add(one("audio-only", audioSet(arep("A1", 4, 125))))
	// --- carried default sample duration: segment 1 has a tfhd default, segment 2 relies on what the loader remembers
	{
		r := vrep("V1", 1000, 3, 40, 50, "tfhd")
		r.TrexDur = 20
		r.Segs[1].Enc = "trex"
		add(one("carried-tfhd-default", videoSet(r)))
		r2 := vrep("V1", 1000, 3, 40, 50, "trex")
		r2.TrexDur = 40
		r2.Segs[2].Enc = "tfhd"
		r2.Segs[2].Durs = []uint32{80, 80, 80}
		add(one("tfhd-default-last", videoSet(r2)))
	}
	// --- two fragments per segment
	{
		r := vrep("V1", 1000, 3, 40, 50, "trun")
		for i := range r.Segs {
			r.Segs[i].Split = 20
		}
		add(one("two-fragments", videoSet(r)))
		r2 := vrep("V1", 1000, 3, 40, 50, "tfhd")
		for i := range r2.Segs {
			r2.Segs[i].Split = 49
		}
		add(one("two-fragments-tfhd", videoSet(r2)))
	}
	// --- loop duration: whole ms / not whole ms (both sides)
	add(one("loop-whole-ms-90k", videoSet(vrep("V1", 90000, 3, 90, 100, "tfhd"))))     // 27000 ticks = 300 ms
	add(one("loop-not-whole-ms-90k", videoSet(vrep("V1", 90000, 3, 91, 100, "tfhd")))) // 27300 ticks = 303.33 ms
	add(one("loop-not-whole-ms-48k", audioSet(arep("A1", 3, 63))))                     // 290304 ticks = 6048 ms: whole
	add(one("loop-not-whole-ms-48k-b", audioSet(arep("A1", 1, 1))))                    // 1536 ticks = 32 ms
	add(one("loop-1001", videoSet(vrep("V1", 30000, 2, 1001, 60, "tfhd"))))            // 120120/30000 = 4004 ms
	add(one("loop-1001-odd", videoSet(vrep("V1", 30000, 1, 1001, 1, "tfhd"))))         // 1001/30000 s: not whole
	add(one("loop-one-tick-off", videoSet(repSpec{ID: "V1", Timescale: 90000, TrexDur: 3000,
		Segs: mkSegs(segsOpt{n: 3, startNr: 1, sampleD: 3000, count: 30, enc: "trun", vary: true})}))) // 3*(90000+1)
	// --- representations of the reference type disagree / agree in ms but not in ticks
	add(one("two-video-differ", videoSet(vrep("V1", 1000, 3, 40, 50, "trex"), vrep("V2", 1000, 4, 40, 50, "trex"))))
	add(one("two-video-differ-1ms", videoSet(vrep("V1", 1000, 3, 40, 50, "trex"), repSpec{ID: "V2", Timescale: 1000, TrexDur: 40,
		Segs: mkSegs(segsOpt{n: 3, startNr: 1, sampleD: 40, count: 50, enc: "trun", vary: true})})))
	add(one("two-video-submillisecond", videoSet(vrep("V1", 1000, 3, 40, 50, "trex"), repSpec{ID: "V2", Timescale: 90000, TrexDur: 3600,
		Segs: append(mkSegs(segsOpt{n: 2, startNr: 1, sampleD: 3600, count: 50, enc: "tfhd"}),
			segSpec{Kind: "ok", Name: "3.m4s", Tfdt: 360000, Durs: []uint32{180000 + 45}, Enc: "trun"})}))) // 6000.5 ms truncates to 6000
	add(one("audio-shorter", audioSet(arep("A1", 2, 62)), videoSet(vrep("V1", 1000, 3, 40, 50, "trex"))))
	add(one("text-shorter", videoSet(vrep("V1", 1000, 3, 40, 50, "trex")), textSet(vrep("T1", 1000, 2, 2000, 1, "trun"))))
	// --- audio without constant sample duration (error after the representation was registered)
	{
		a := repSpec{ID: "A1", Timescale: 48000, Segs: mkSegs(segsOpt{n: 3, startNr: 1, sampleD: 1536, count: 10, vary: true})}
		add(one("audio-no-const-first", audioSet(a), videoSet(vrep("V1", 1000, 3, 40, 50, "trex"))))
		add(one("audio-no-const-last", videoSet(vrep("V1", 1000, 3, 40, 50, "trex")), audioSet(a)))
		b := arep("A1", 3, 62)
		b.Segs[1].Durs = append([]uint32{}, b.Segs[1].Durs...)
		for i := range b.Segs[1].Durs {
			b.Segs[1].Durs[i] = 1024
		}
		add(one("audio-const-differs-between-segments", audioSet(b), videoSet(vrep("V1", 1000, 3, 40, 50, "trex"))))
	}
	// --- $Number$: start / end numbers
	for _, c := range []struct {
		name       string
		start, end *uint32
		first      uint32
		n          int
	}{
		{"start-default", nil, nil, 1, 3}, {"start-0", p32(0), nil, 0, 3}, {"start-5", p32(5), nil, 5, 3},
		{"start-0-no-files", p32(0), nil, 7, 2}, {"start-1-no-files", nil, nil, 2, 2},
		{"end-exact", p32(1), p32(3), 1, 3}, {"end-smaller", p32(1), p32(2), 1, 4}, {"end-larger", p32(1), p32(9), 1, 3},
		{"end-below-start", p32(2), p32(1), 2, 3}, {"end-equals-start", p32(2), p32(2), 2, 3},
		{"start-wraps-uint32", p32(4294967294), nil, 4294967294, 2},
	} {
		r := repSpec{ID: "V1", Timescale: 1000, TrexDur: 40, Segs: mkSegs(segsOpt{n: c.n, startNr: c.first, sampleD: 40, count: 50, enc: "trex"})}
		as := videoSet(r)
		as.StartNr, as.EndNr = c.start, c.end
		add(one(c.name, as))
	}
	{
		// files 4294967294, 4294967295, 0, 1: the number wraps, the fix-up of the previous end stops
		r := repSpec{ID: "V1", Timescale: 1000, TrexDur: 40, Segs: mkSegs(segsOpt{n: 4, startNr: 4294967294, sampleD: 40, count: 50, enc: "trex"})}
		r.Segs[2].Tfdt += 7 // a gap that the fix-up would have hidden
		as := videoSet(r)
		as.StartNr = p32(4294967294)
		add(one("number-wraps-with-gap", as))
	}
	// --- $Number$: gaps and overlaps in the files are overwritten (EndTime_i := StartTime_{i+1})
	for _, c := range []struct {
		name  string
		shift int64
		at    int
	}{{"gap-in-files", 500, 1}, {"overlap-in-files", -500, 2}, {"gap-before-last", 40, 2}, {"first-not-zero", 0, -1}} {
		r := vrep("V1", 1000, 3, 40, 50, "trex")
		if c.at >= 0 {
			r.Segs[c.at].Tfdt = uint64(int64(r.Segs[c.at].Tfdt) + c.shift)
		} else {
			for i := range r.Segs {
				r.Segs[i].Tfdt += 2000
			}
		}
		add(one(c.name, videoSet(r)))
	}
	{
		r := vrep("V1", 1000, 3, 40, 50, "trex")
		r.Segs[1].Tfdt, r.Segs[2].Tfdt = r.Segs[2].Tfdt, r.Segs[1].Tfdt
		add(one("files-out-of-order", videoSet(r)))
	}
	// --- $Number$: missing / undecodable files
	for _, c := range []struct {
		name, kind string
		at         int
	}{{"missing-middle", "missing", 1}, {"missing-first", "missing", 0}, {"garbage-middle", "garbage", 1},
		{"garbage-first", "garbage", 0}, {"garbage-last", "garbage", 2}, {"empty-file", "empty", 1}, {"styp-only-file", "styponly", 1}, {"tiny-box-file", "tinybox", 1}} {
		r := vrep("V1", 1000, 3, 40, 50, "trex")
		r.Segs[c.at].Kind = c.kind
		add(one(c.name, videoSet(r)))
		add(one(c.name+"-second-rep", audioSet(arep("A1", 3, 62)), videoSet(r)))
	}
	// --- init segment
	{
		r := vrep("V1", 1000, 3, 40, 50, "trex")
		r.BadInit = true
		add(one("bad-init", audioSet(arep("A1", 3, 62)), videoSet(r)))
		r2 := vrep("V1", 1000, 3, 40, 50, "trex")
		r2.NoInit = true
		add(one("no-init", videoSet(r2), audioSet(arep("A1", 3, 62))))
	}
	// --- template shapes
	{
		as := videoSet(vrep("V1", 1000, 3, 40, 50, "trex"))
		as.NoTemplate = true
		add(one("no-template", audioSet(arep("A1", 3, 62)), as))
		r := vrep("V1", 1000, 3, 40, 50, "trex")
		r.RepTemplate = true
		as2 := videoSet(vrep("V0", 1000, 3, 40, 50, "trex"), r)
		add(one("rep-level-template", as2))
		as3 := videoSet(vrep("V1", 1000, 3, 40, 50, "trex"))
		as3.Media = "$RepresentationID$/seg.m4s"
		add(one("media-without-identifier", as3))
		as4 := videoSet(vrep("V1", 1000, 3, 40, 50, "trex"))
		as4.HasTimeline = true
		as4.Timeline = timelineOf(as4.Reps[0].Segs)
		add(one("timeline-with-number", as4))
		r5 := repSpec{ID: "V1", Timescale: 1000, TrexDur: 40, Segs: mkSegs(segsOpt{n: 3, sampleD: 40, count: 50, enc: "trex", timeName: true})}
		as5 := videoSet(r5)
		as5.Media = timeMedia
		add(one("time-without-timeline", as5))
		as6 := videoSet(vrep("V1", 1000, 3, 40, 50, "trex"))
		as6.StTimescale = p32(1000)
		as6.Reps[0].Codecs = "hev1.2.4.L120.B0"
		add(one("timescale-and-rep-codecs", as6))
	}
	// --- $Time$ with SegmentTimeline
	mkTime := func(ts uint32, n int, sampleD uint32, count int, enc string) (asSpec, *repSpec) {
		r := repSpec{ID: "V1", Timescale: ts, TrexDur: sampleD, Segs: mkSegs(segsOpt{n: n, sampleD: sampleD, count: count, enc: enc, timeName: true})}
		as := videoSet(r)
		as.Media = timeMedia
		as.StTimescale = p32(ts)
		as.HasTimeline = true
		as.Timeline = timelineOf(r.Segs)
		return as, &as.Reps[0]
	}
	{
		as, _ := mkTime(1000, 4, 40, 50, "trex")
		add(one("time-plain", as))
		as, r := mkTime(90000, 3, 3000, 60, "tfhd")
		r.Segs[1].Durs = r.Segs[1].Durs[:30]
		r.Segs[2].Tfdt = r.Segs[1].Tfdt + segTotal(r.Segs[1])
		r.Segs[2].Name = fmt.Sprintf("%d.m4s", r.Segs[2].Tfdt)
		as.Timeline = timelineOf(r.Segs)
		add(one("time-alternating", as))
		as, r = mkTime(1000, 3, 40, 50, "trex")
		r.Segs[1].Tfdt += 300 // the file named 2000.m4s starts at 2300: table not contiguous, nothing checks it
		add(one("time-gap-in-files", as))
		as, r = mkTime(1000, 3, 40, 50, "trex")
		r.Segs[1].Durs = r.Segs[1].Durs[:40] // ends early
		add(one("time-short-file", as))
		as, r = mkTime(1000, 3, 40, 50, "trex")
		r.Segs[2].Kind = "missing"
		add(one("time-missing-file", as))
		as, r = mkTime(1000, 3, 40, 50, "trex")
		r.Segs[1].Kind = "garbage"
		add(one("time-garbage-file", audioSet(arep("A1", 3, 62)), as))
		as, _ = mkTime(1000, 3, 40, 50, "trex")
		as.Timeline[0].D = 1999 // timeline does not match the files: second file not found
		add(one("time-timeline-mismatch", as))
		as, _ = mkTime(1000, 3, 40, 50, "trex")
		as.Timeline = []sEntry{{T: p64(0), D: 2000}, {T: p64(4000), D: 2000}} // skips the middle file
		add(one("time-timeline-skips", as))
		as, _ = mkTime(1000, 3, 40, 50, "trex")
		as.Timeline = []sEntry{{T: p64(0), D: 2000, R: -1}} // r=-1: one read only
		add(one("time-negative-repeat", as))
		as, _ = mkTime(1000, 3, 40, 50, "trex")
		as.Timeline = nil // empty timeline: no segments
		add(one("time-empty-timeline", as))
	}
	// --- $Time$: hole / overlap in the AUDIO table beside a video reference (audio is re-segmented, its
	// table must be contiguous all the same)
	{
		explicit := func(segs []segSpec) []sEntry {
			var out []sEntry
			for _, sg := range segs {
				out = append(out, sEntry{T: p64(sg.Tfdt), D: segTotal(sg)})
			}
			return out
		}
		mkTimeAudio := func(shift int64, from, to int) asSpec {
			r := repSpec{ID: "A1", Timescale: 48000, TrexDur: 0, Segs: mkSegs(segsOpt{n: 3, sampleD: 1536, count: 62, enc: "tfhd", timeName: true})}
			for i := from; i < to; i++ {
				r.Segs[i].Tfdt = uint64(int64(r.Segs[i].Tfdt) + shift)
				r.Segs[i].Name = fmt.Sprintf("%d.m4s", r.Segs[i].Tfdt)
			}
			as := audioSet(r)
			as.Media = timeMedia
			as.StTimescale = p32(48000)
			as.HasTimeline = true
			as.Timeline = explicit(r.Segs)
			return as
		}
		for _, c := range []struct {
			name     string
			shift    int64
			from, to int
		}{{"time-audio-plain", 0, 0, 0}, {"time-audio-gap", 1536, 1, 3}, {"time-audio-overlap", -1536, 1, 3},
			{"time-audio-second-later", 1536, 1, 2}, {"time-audio-last-later", 1536, 2, 3}} {
			v, _ := mkTime(1000, 3, 40, 50, "trex")
			add(one(c.name, mkTimeAudio(c.shift, c.from, c.to), v))
			v2, _ := mkTime(1000, 3, 40, 50, "trex")
			add(one(c.name+"-video-first", v2, mkTimeAudio(c.shift, c.from, c.to)))
		}
		// $Number$ video with $Time$ audio that has a hole
		add(one("number-video-time-audio-gap", mkTimeAudio(1536, 1, 3), videoSet(vrep("V1", 1000, 3, 40, 50, "trex"))))
	}
	// --- high timescales (1 MHz .. 10 MHz) and near-equal durations: representations that are looped
	// with the reference duration must have EXACTLY that duration, in every timescale
	{
		hi := func(id string, ts uint32, frameTicks uint32, extraLast uint32) repSpec {
			r := repSpec{ID: id, Timescale: ts, TrexDur: frameTicks, Segs: mkSegs(segsOpt{n: 3, startNr: 1, sampleD: frameTicks, count: 50, enc: "trun"})}
			if extraLast != 0 {
				last := &r.Segs[2]
				last.Durs = append([]uint32{}, last.Durs...)
				last.Durs[len(last.Durs)-1] += extraLast
			}
			return r
		}
		ref := func() repSpec { return vrep("V1", 1000, 3, 40, 50, "trex") } // 6 s
		for _, c := range []struct {
			name  string
			ts    uint32
			frame uint32
			extra uint32
		}{
			{"hi-ts-9mhz-equal", 9000000, 360000, 0}, {"hi-ts-9mhz-one-tick", 9000000, 360000, 1}, {"hi-ts-9mhz-below-1us", 9000000, 360000, 5},
			{"hi-ts-9mhz-1us", 9000000, 360000, 9}, {"hi-ts-9mhz-1ms", 9000000, 360000, 9000},
			{"hi-ts-10mhz-equal", 10000000, 400000, 0}, {"hi-ts-10mhz-one-tick", 10000000, 400000, 1}, {"hi-ts-10mhz-9-ticks", 10000000, 400000, 9},
			{"hi-ts-10mhz-1us", 10000000, 400000, 10}, {"hi-ts-1mhz-equal", 1000000, 40000, 0}, {"hi-ts-1mhz-one-tick", 1000000, 40000, 1},
			{"hi-ts-90k-one-tick", 90000, 3600, 1},
		} {
			add(one(c.name, videoSet(ref(), hi("V2", c.ts, c.frame, c.extra))))
			t := hi("T1", c.ts, c.frame, c.extra)
			add(one(c.name+"-text", videoSet(ref()), textSet(t)))
		}
		// the high-timescale representation is the reference
		add(one("hi-ts-reference-10mhz", videoSet(hi("V1", 10000000, 400000, 0), vrep("V2", 1000, 3, 40, 50, "trex"))))
		add(one("hi-ts-reference-10mhz-one-tick", videoSet(hi("V1", 10000000, 400000, 0), hi("V2", 10000000, 400000, 1))))
	}
	// --- names: representation ids and asset paths outside ASCII / Latin-1, with spaces, dots, very long
	for _, c := range []struct{ name, asset, vid, aid string }{
		{"id-cyrillic", "", "\u0432\u0438\u0434\u0435\u043e300", "\u0437\u0432\u0443\u043a48"},
		{"id-cjk", "", "\u6620\u50cf1", "\u97f3\u58f01"},
		{"id-latin1", "", "vid\u00e9o", "s\u00f6n"},
		{"id-emoji", "", "v\U0001F3AC", "a\U0001F50A"},
		{"id-space", "", "V 300", "A 48"},
		{"id-dots", "", "v.300.main", "a.48"},
		{"id-plus-parens", "", "V+(300)", "A[48]"},
		{"id-slash", "", "video/1", "audio/1"},
		{"id-slash-deep", "", "tracks/v/hd/1", "tracks/a/en/1"},
		{"id-slash-prefix", "", "1/video", "1/audio"},
		{"id-case", "", "Rep1", "rep1"},
		{"id-trailing-dot", "", "V1.", "V1"},
		{"id-trailing-space", "", "V1 ", "V1"},
		{"id-long", "", "V" + strings.Repeat("0123456789", 20), "A" + strings.Repeat("abcdefghij", 20)},
		{"asset-path-cyrillic", "x/\u0430\u0441\u0441\u0435\u0442/\u043e\u0434\u0438\u043d", "V1", "A1"},
		{"asset-path-space-dots", "x/my asset v1.2", "V1", "A1"},
	} {
		v, a := vrep(c.vid, 1000, 3, 40, 50, "trex"), arep(c.aid, 3, 62)
		l := one(c.name, audioSet(a), videoSet(v))
		if c.asset != "" {
			l.Asset = c.asset
		}
		add(l)
	}
	// --- thumbnails
	mkThumbs := func(n int, first uint32) repSpec {
		var segs []segSpec
		for i := 0; i < n; i++ {
			segs = append(segs, segSpec{Kind: "ok", Name: fmt.Sprintf("%d.jpg", first+uint32(i))})
		}
		return repSpec{ID: "thumbs", Segs: segs}
	}
	{
		img := asSpec{ContentType: "image", Media: "$RepresentationID$/$Number$.jpg", Duration: p32(2), StartNr: p32(1), Reps: []repSpec{mkThumbs(3, 1)}}
		add(one("thumbs", videoSet(vrep("V1", 1000, 3, 40, 50, "trex")), img))
		img2 := img
		img2.StTimescale = p32(1000)
		img2.Duration = p32(2000)
		img2.StartNr = p32(3)
		img2.Reps = []repSpec{mkThumbs(4, 3)}
		add(one("thumbs-timescale-start3", videoSet(vrep("V1", 1000, 3, 40, 50, "trex")), img2))
		img3 := img
		img3.Duration = nil
		add(one("thumbs-no-duration", videoSet(vrep("V1", 1000, 3, 40, 50, "trex")), img3))
		img4 := img
		img4.Reps = []repSpec{mkThumbs(0, 1)}
		add(one("thumbs-none", videoSet(vrep("V1", 1000, 3, 40, 50, "trex")), img4))
		// thumbnail track longer / shorter than the loop (6 s): the last image starts inside the loop and
		// reaches beyond its end; ends exactly; one image too many; too short
		for _, c := range []struct {
			name string
			ts   *uint32
			dur  uint32
			n    int
		}{{"thumbs-overhang-4s", nil, 4, 2}, {"thumbs-overhang-2500ms", p32(1000), 2500, 3}, {"thumbs-overhang-1ms", p32(1000), 2001, 3},
			{"thumbs-exact-3x2000ms", p32(1000), 2000, 3}, {"thumbs-exact-1x6s", nil, 6, 1}, {"thumbs-one-too-many", nil, 2, 4},
			{"thumbs-too-short", nil, 2, 2}, {"thumbs-short-by-1ms", p32(1000), 1999, 3}, {"thumbs-overhang-90k", p32(90000), 270001, 2}} {
			im := img
			im.StTimescale = c.ts
			im.Duration = p32(c.dur)
			im.Reps = []repSpec{mkThumbs(c.n, 1)}
			add(one(c.name, videoSet(vrep("V1", 1000, 3, 40, 50, "trex")), im))
		}
		img5 := img
		img5.EndNr = p32(2)
		add(one("thumbs-endnumber", videoSet(vrep("V1", 1000, 3, 40, 50, "trex")), img5))
	}
	// --- MPD level
	for _, k := range []string{"garbage", "dynamic", "two_periods", "no_type", "no_duration", "no_type_no_duration"} {
		l := one("mpd-"+k, videoSet(vrep("V1", 1000, 3, 40, 50, "trex")))
		l.MPDs[0].Kind = k
		add(l)
		l2 := one("mpd-"+k+"-and-good", videoSet(vrep("V1", 1000, 3, 40, 50, "trex")))
		l2.MPDs = append(l2.MPDs, mpdSpec{Name: "A_first.mpd", Kind: k, Sets: l2.MPDs[0].Sets})
		add(l2)
	}
	{
		// two MPDs sharing representations; the second adds one
		v, a := vrep("V1", 1000, 3, 40, 50, "trex"), arep("A1", 3, 62)
		l := one("two-mpds", audioSet(a), videoSet(v))
		l.MPDs = append(l.MPDs, mpdSpec{Name: "Manifest_b.mpd", Kind: "ok", Sets: []asSpec{audioSet(a), videoSet(v, vrep("V2", 1000, 3, 40, 50, "tfhd"))}})
		add(l)
		// the second MPD fails at a new representation after the first loaded fine
		bad := vrep("V2", 1000, 3, 40, 50, "trex")
		bad.Segs[1].Kind = "garbage"
		l2 := one("two-mpds-second-fails", audioSet(a), videoSet(v))
		l2.MPDs = append(l2.MPDs, mpdSpec{Name: "Manifest_b.mpd", Kind: "ok", Sets: []asSpec{videoSet(v, bad), audioSet(a)}})
		add(l2)
		// the second MPD describes V1 differently (endNumber): the first description stays
		as := videoSet(v)
		as.EndNr = p32(2)
		l3 := one("two-mpds-different-description", audioSet(a), videoSet(v))
		l3.MPDs = append(l3.MPDs, mpdSpec{Name: "Manifest_b.mpd", Kind: "ok", Sets: []asSpec{as}})
		add(l3)
	}
	return ls
}

// randomLayout combines the knobs at random.
func randomLayout(rng *rand.Rand, k int) layout {
	type tsd struct {
		ts uint32
		d  uint32
	}
	vts := []tsd{{1000, 40}, {90000, 3000}, {90000, 3600}, {30000, 1001}, {12800, 512}, {25, 1}, {600, 25}, {1000, 33}, {90000, 3003}}
	pick := vts[rng.Intn(len(vts))]
	n := 1 + rng.Intn(5)
	count := 1 + rng.Intn(6)
	if rng.Intn(3) == 0 {
		count = []int{24, 25, 30, 48, 50, 60}[rng.Intn(6)]
	}
	encs := []string{"trun", "tfhd", "trex"}
	mkv := func(id string, n int) repSpec {
		r := repSpec{ID: id, Timescale: pick.ts, TrexDur: pick.d,
			Segs: mkSegs(segsOpt{n: n, startNr: 1, sampleD: pick.d, count: count, enc: encs[rng.Intn(3)], vary: rng.Intn(8) == 0})}
		if rng.Intn(4) == 0 {
			r.TrexDur = pick.d * uint32(1+rng.Intn(2))
		}
		for i := range r.Segs {
			if rng.Intn(6) == 0 {
				r.Segs[i].Enc = encs[rng.Intn(3)]
			}
			if rng.Intn(8) == 0 && count > 1 {
				r.Segs[i].Split = 1 + rng.Intn(count-1)
			}
			if rng.Intn(10) == 0 {
				r.Segs[i].Tfdt = uint64(int64(r.Segs[i].Tfdt) + int64(rng.Intn(2*int(pick.d)+1)) - int64(pick.d) + int64(pick.d))
			}
			if rng.Intn(25) == 0 {
				r.Segs[i].Kind = []string{"missing", "garbage", "empty"}[rng.Intn(3)]
			}
		}
		return r
	}
	var sets []asSpec
	if rng.Intn(4) != 0 {
		cnt := 62
		if rng.Intn(2) == 0 {
			cnt = 1 + rng.Intn(100)
		}
		a := arep("A1", 1+rng.Intn(4), cnt)
		if rng.Intn(10) == 0 {
			a.Segs[0].Enc = "trun"
			a.Segs[0].Durs[0]++
		}
		if rng.Intn(12) == 0 {
			a.BadInit = true
		}
		sets = append(sets, audioSet(a))
	}
	nv := 1 + rng.Intn(2)
	var vreps []repSpec
	for i := 0; i < nv; i++ {
		nn := n
		if rng.Intn(6) == 0 {
			nn = 1 + rng.Intn(5)
		}
		vreps = append(vreps, mkv(fmt.Sprintf("V%d", i+1), nn))
	}
	vs := videoSet(vreps...)
	switch rng.Intn(8) {
	case 0:
		vs.StartNr = p32(1)
		vs.EndNr = p32(uint32(rng.Intn(n + 2)))
	case 1:
		// shift the numbering
		s := uint32(rng.Intn(4))
		vs.StartNr = p32(s)
		for i := range vs.Reps {
			for j := range vs.Reps[i].Segs {
				vs.Reps[i].Segs[j].Name = fmt.Sprintf("%d.m4s", s+uint32(j))
			}
		}
	case 2:
		// $Time$ addressing
		vs.Media = timeMedia
		vs.HasTimeline = true
		vs.StTimescale = p32(pick.ts)
		for i := range vs.Reps {
			for j := range vs.Reps[i].Segs {
				vs.Reps[i].Segs[j].Name = fmt.Sprintf("%d.m4s", vs.Reps[i].Segs[j].Tfdt)
			}
		}
		vs.Timeline = timelineOf(vs.Reps[0].Segs)
	}
	if rng.Intn(2) == 0 {
		sets = append(sets, vs)
	} else {
		sets = append([]asSpec{vs}, sets...)
	}
	if rng.Intn(5) == 0 {
		sets = append(sets, textSet(vrep("T1", 1000, 1+rng.Intn(4), 2000, 1, "trun")))
	}
	if rng.Intn(6) == 0 {
		var segs []segSpec
		for i := 0; i < 1+rng.Intn(4); i++ {
			segs = append(segs, segSpec{Kind: "ok", Name: fmt.Sprintf("%d.jpg", i+1)})
		}
		sets = append(sets, asSpec{ContentType: "image", Media: "$RepresentationID$/$Number$.jpg", Duration: p32(2), StartNr: p32(1),
			Reps: []repSpec{{ID: "thumbs", Segs: segs}}})
	}
	l := layout{Asset: fmt.Sprintf("r/%03d", k), Note: "random", MPDs: []mpdSpec{{Name: "Manifest.mpd", Kind: "ok", Sets: sets}}}
	if rng.Intn(6) == 0 && len(sets) > 1 {
		l.MPDs = append(l.MPDs, mpdSpec{Name: "Manifest_b.mpd", Kind: "ok", Sets: sets[:len(sets)-1]})
		if rng.Intn(2) == 0 {
			l.MPDs[0], l.MPDs[1] = l.MPDs[1], l.MPDs[0]
			l.MPDs[0].Name, l.MPDs[1].Name = "Manifest.mpd", "Manifest_b.mpd"
		}
	}
	return l
}
