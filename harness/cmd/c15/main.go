// c15: correspondence and oracle for property C15 (the representation-metadata cache never changes
// what is served).
//
// Part S (synthetic layouts, loader level): asset layouts are rendered in memory (mp4ff), the
// loader of /repo's current tree (newAssetMgr + discoverAssets through the add-only hook
// verif_hooks_c15.go) runs over them in scan / write / cache mode and with damaged cache files; the
// Coq model (theories/Cache.v) gets the file observations and must produce the same assets, tables,
// admission decisions and cache files; the property text is evaluated on the implementation's output.
//
// Part B (bundled assets, server level): complete servers (app.SetupServer) over a scratch copy of
// the bundled assets plus a few generated ones, scan vs. write vs. cache-only (shared and separate
// repdataroot) vs. damaged cache; identical request lists, responses byte-compared.
package main

import (
	"bytes"
	"compress/gzip"
	"crypto/sha256"
	"encoding/json"
	"fmt"
	"io"
	"io/fs"
	"log/slog"
	"math/rand"
	"os"
	"path/filepath"
	"runtime"
	"runtime/debug"
	"runtime/pprof"
	"sort"
	"strings"
	"time"

	"github.com/Dash-Industry-Forum/livesim2/cmd/livesim2/app"
	"verifharness/lib"
)

func main() { lib.Main("C15", runC15) }

var quiet = slog.New(slog.NewTextHandler(io.Discard, &slog.HandlerOptions{Level: slog.LevelError + 10}))

// damage describes what is done to the cache directory before a cache-mode start.
type damage struct {
	Kind   string `json:"kind"` // delete | truncate | flip | plain | plain-garbage | empty-gz | gz-of-nothing | delete-all
	Asset  string `json:"asset,omitempty"`
	Rep    string `json:"rep,omitempty"`
	Offset int    `json:"offset,omitempty"` // truncate: new length; flip: byte index
}

// synInput is the replay record of a synthetic case.
type synInput struct {
	Part    string   `json:"part"`  // "synthetic"
	Notes   string   `json:"notes"` // names of the layouts, comma separated
	Layouts []layout `json:"layouts"`
	Before  []layout `json:"before,omitempty"` // history cases: the version of the assets of the first write run
	Mode    string   `json:"mode"`             // scan | load-only | write | read | rewrite | read-damaged
	Damage  *damage  `json:"damage,omitempty"`
}

type synRunner struct {
	c        *lib.Ctx
	scratch  string
	nextID   int
	terms    []string
	defs     strings.Builder
	skipHist bool // leave out the multi-run histories (every second random layout in the quick tier)
	nDefs    int
	nCases   int
	distinct map[[32]byte]bool
	shard    int
	admit    map[string]int
}

func (s *synRunner) flush(force bool) {
	if len(s.terms) == 0 || (!force && len(s.terms) < 150) {
		return
	}
	s.c.WriteCases(fmt.Sprintf("cases_C15_%d.v", s.shard),
		lib.CasesFile("From Verif Require Import GoSem Timeline Cache CorrC15.", "c15case", s.defs.String(), s.terms, "model_view"))
	s.shard++
	s.terms = nil
	s.defs.Reset()
}

type runOut struct {
	assets []app.VerifC15Asset
	err    error
	panic  string
}

// memdbg prints the live heap (development aid, C15_MEMDBG=1).
func memdbg(where string) {
	if os.Getenv("C15_MEMDBG") == "" {
		return
	}
	runtime.GC()
	var m runtime.MemStats
	runtime.ReadMemStats(&m)
	fmt.Fprintf(os.Stderr, "mem %-40s heapInuse=%d MB sys=%d MB\n", where, m.HeapInuse>>20, m.Sys>>20)
}

// panicSite returns the innermost livesim2 function on the stack of a recovered panic.
func panicSite() string {
	pcs := make([]uintptr, 64)
	n := runtime.Callers(3, pcs)
	frames := runtime.CallersFrames(pcs[:n])
	for {
		fr, more := frames.Next()
		if strings.Contains(fr.Function, "Dash-Industry-Forum/livesim2") && !strings.Contains(fr.Function, "VerifC15") {
			f := fr.Function
			if i := strings.LastIndex(f, "/"); i >= 0 {
				f = f[i+1:]
			}
			return f
		}
		if !more {
			return "?"
		}
	}
}

func discover(fsys fs.FS, dir string, write bool) (out runOut) {
	defer func() {
		if r := recover(); r != nil {
			out.panic = panicSite() + ": " + fmt.Sprint(r)
		}
	}()
	out.assets, out.err = app.VerifC15Discover(fsys, dir, write, quiet)
	return
}

func loadOnly(fsys fs.FS, dir string, write bool, paths []string) (out runOut) {
	defer func() {
		if r := recover(); r != nil {
			out.panic = panicSite() + ": " + fmt.Sprint(r)
		}
	}()
	out.assets, _ = app.VerifC15LoadAssetOnly(fsys, dir, write, quiet, paths)
	return
}

// servedView is what the property compares between two servers: everything that is registered,
// without the field that is never stored nor used for serving.
func servedView(as []app.VerifC15Asset) string {
	cp := make([]app.VerifC15Asset, len(as))
	for i, a := range as {
		cp[i] = a
		cp[i].Reps = make([]app.VerifC15Rep, len(a.Reps))
		for j, r := range a.Reps {
			cp[i].Reps[j] = r
			cp[i].Reps[j].Segments = make([]app.VerifC15Seg, len(r.Segments))
			for k, sg := range r.Segments {
				sg.CommonSampleDur = 0
				cp[i].Reps[j].Segments[k] = sg
			}
		}
	}
	b, _ := json.Marshal(cp)
	return string(b)
}

// describeDiffFor prefixes the symptom with "other-asset-" when an asset other than the one whose
// cache file was damaged differs.
func describeDiffFor(ref, got []app.VerifC15Asset, asset string) (symptom, what string) {
	if asset == "" {
		return describeDiff(ref, got)
	}
	var r2, g2 []app.VerifC15Asset
	for _, a := range ref {
		if a.AssetPath != asset {
			r2 = append(r2, a)
		}
	}
	for _, a := range got {
		if a.AssetPath != asset {
			g2 = append(g2, a)
		}
	}
	if servedView(r2) != servedView(g2) {
		sym, what := describeDiff(r2, g2)
		return "other-asset-" + sym, what
	}
	return describeDiff(ref, got)
}

func describeDiff(ref, got []app.VerifC15Asset) (symptom, what string) {
	rm := map[string]app.VerifC15Asset{}
	for _, a := range ref {
		rm[a.AssetPath] = a
	}
	gm := map[string]app.VerifC15Asset{}
	for _, a := range got {
		gm[a.AssetPath] = a
	}
	for p, a := range rm {
		g, ok := gm[p]
		if !ok {
			return "asset-dropped", fmt.Sprintf("asset %s is served by the scanning server but not by the cache server", p)
		}
		if len(g.Reps) < len(a.Reps) {
			var have []string
			for _, r := range g.Reps {
				have = append(have, r.ID)
			}
			return "partial-asset", fmt.Sprintf("asset %s is served with representations %v only (scan: %d representations)", p, have, len(a.Reps))
		}
		if servedView([]app.VerifC15Asset{a}) != servedView([]app.VerifC15Asset{g}) {
			return "table-differs", fmt.Sprintf("asset %s: loaded data differ between scan and cache", p)
		}
	}
	for p := range gm {
		if _, ok := rm[p]; !ok {
			return "asset-added", fmt.Sprintf("asset %s is served by the cache server but not by the scanning server", p)
		}
	}
	return "differs", "asset lists differ"
}

// checkServed evaluates the admission and contiguity clauses on the served assets.
func (s *synRunner) checkServed(id string, as []app.VerifC15Asset, in any, timeMode map[string]bool) {
	// every MPD of a served asset has all its representations loaded (no partially registered asset)
	if si, ok := in.(synInput); ok {
		for _, a := range as {
			have := map[string]bool{}
			for _, r := range a.Reps {
				have[r.ID] = true
			}
			for _, l := range si.Layouts {
				if l.Asset != a.AssetPath {
					continue
				}
				for _, m := range l.MPDs {
					registered := false
					for _, n := range a.MPDs {
						registered = registered || n == m.Name
					}
					if !registered {
						continue
					}
					for _, set := range m.Sets {
						for _, r := range set.Reps {
							if !have[r.ID] {
								s.c.Fail(id, "partial-asset:mpd-with-missing-representation",
									fmt.Sprintf("asset %s is served with %s registered but representation %s of that MPD is not loaded", a.AssetPath, m.Name, r.ID), in)
							}
						}
					}
				}
			}
		}
	}
	for _, a := range as {
		var ref *app.VerifC15Rep
		for i := range a.Reps {
			if a.Reps[i].ID == a.RefRep {
				ref = &a.Reps[i]
			}
		}
		if ref == nil {
			s.c.Fail(id, "admission:no-reference", fmt.Sprintf("asset %s served without reference representation", a.AssetPath), in)
			continue
		}
		dur := func(r *app.VerifC15Rep) int64 {
			if len(r.Segments) == 0 {
				return 0
			}
			return int64(r.Segments[len(r.Segments)-1].EndTime - r.Segments[0].StartTime)
		}
		if int64(a.LoopDurMS)*int64(ref.MediaTimescale) != 1000*dur(ref) {
			s.c.Fail(id, "admission:loop-not-whole-ms", fmt.Sprintf("asset %s served with loop %d ms but reference %s lasts %d/%d s",
				a.AssetPath, a.LoopDurMS, ref.ID, dur(ref), ref.MediaTimescale), in)
		}
		for i := range a.Reps {
			r := &a.Reps[i]
			if r.MediaTimescale == 0 {
				continue
			}
			ms := 1000 * dur(r) / int64(r.MediaTimescale)
			if !(r.ContentType == "audio" && ref.ContentType != "audio") && dur(r)*int64(ref.MediaTimescale) != dur(ref)*int64(r.MediaTimescale) {
				s.c.Fail(id, "admission:looped-representation-disagrees", fmt.Sprintf("asset %s served: %s lasts %d/%d s, the reference %s %d/%d s (not equal)",
					a.AssetPath, r.ID, dur(r), r.MediaTimescale, ref.ID, dur(ref), ref.MediaTimescale), in)
			}
			if r.ContentType == ref.ContentType && ms != int64(a.LoopDurMS) {
				s.c.Fail(id, "admission:reference-type-disagrees", fmt.Sprintf("asset %s served: %s lasts %d ms, loop is %d ms",
					a.AssetPath, r.ID, ms, a.LoopDurMS), in)
			}
			for k := 0; k+1 < len(r.Segments); k++ {
				if r.Segments[k].EndTime != r.Segments[k+1].StartTime {
					key := "noncontiguous:number-mode"
					if timeMode[a.AssetPath+"/"+r.ID] || !strings.Contains(r.MediaURI, "$Number$") {
						key = "noncontiguous:time-mode"
					}
					s.c.Fail(id, key, fmt.Sprintf("asset %s rep %s: segment %d ends at %d, segment %d starts at %d",
						a.AssetPath, r.ID, k, r.Segments[k].EndTime, k+1, r.Segments[k+1].StartTime), in)
					break
				}
			}
		}
	}
}

func mpdPaths(ls []layout) []string {
	var ps []string
	for _, l := range ls {
		for _, m := range l.MPDs {
			ps = append(ps, l.Asset+"/"+m.Name)
		}
	}
	sort.Slice(ps, func(i, j int) bool { return walkLess(ps[i], ps[j]) })
	return ps
}

func readTree(dir string) map[string][]byte {
	out := map[string][]byte{}
	_ = filepath.WalkDir(dir, func(p string, d fs.DirEntry, err error) error {
		if err == nil && !d.IsDir() {
			b, _ := os.ReadFile(p)
			rel, _ := filepath.Rel(dir, p)
			out[rel] = b
		}
		return nil
	})
	return out
}

func writeTree(dir string, t map[string][]byte) {
	for rel, b := range t {
		p := filepath.Join(dir, rel)
		_ = os.MkdirAll(filepath.Dir(p), 0o755)
		_ = os.WriteFile(p, b, 0o644)
	}
}

func applyDamage(dir string, d damage) error {
	p := filepath.Join(dir, d.Asset, d.Rep+"_data.json.gz")
	switch d.Kind {
	case "delete":
		return os.Remove(p)
	case "delete-all":
		return os.RemoveAll(filepath.Join(dir, d.Asset))
	case "truncate":
		return os.Truncate(p, int64(d.Offset))
	case "flip":
		b, err := os.ReadFile(p)
		if err != nil {
			return err
		}
		if d.Offset < len(b) {
			b[d.Offset] ^= 0x20
		}
		return os.WriteFile(p, b, 0o644)
	case "empty-gz":
		return os.WriteFile(p, nil, 0o644)
	case "gz-of-nothing":
		var buf bytes.Buffer
		zw := gzip.NewWriter(&buf)
		_ = zw.Close()
		return os.WriteFile(p, buf.Bytes(), 0o644)
	case "type-error", "stale-init", "stale-media", "stale-empty", "stale-timescale":
		kind, _ := cacheObs(dir, d.Asset, d.Rep)
		if kind != "data" {
			return fmt.Errorf("no data")
		}
		raw, err := os.ReadFile(p)
		if err != nil {
			return err
		}
		zr, err := gzip.NewReader(bytes.NewReader(raw))
		if err != nil {
			return err
		}
		js, err := io.ReadAll(zr)
		if err != nil {
			return err
		}
		var m map[string]any
		if err := json.Unmarshal(js, &m); err != nil {
			return err
		}
		image := m["contentType"] == "image"
		segs, _ := m["segments"].([]any)
		switch d.Kind {
		case "type-error": // valid gzip, valid JSON, one field of the wrong JSON type
			switch d.Offset % 6 {
			case 0:
				m["preEncrypted"] = "false"
			case 1:
				m["mediaTimescale"] = "90000"
			case 2:
				m["id"] = 5
			case 3:
				m["defaultSampleDuration"] = -1
			case 4:
				if len(segs) == 0 {
					return fmt.Errorf("no segments")
				}
				segs[len(segs)-1].(map[string]any)["nr"] = -1
			case 5:
				if len(segs) == 0 {
					return fmt.Errorf("no segments")
				}
				segs[0].(map[string]any)["startTime"] = 0.5
			}
		case "stale-init": // file of an earlier packaging: its init segment is gone
			if image {
				return fmt.Errorf("not for images")
			}
			m["initURI"] = "gone/init.mp4"
		case "stale-media": // media template without identifier
			m["mediaURI"] = d.Rep + "/seg.m4s"
		case "stale-empty": // other timescale, init gone, no segments
			if image {
				return fmt.Errorf("not for images")
			}
			m["initURI"] = "gone/init.mp4"
			m["segments"] = []any{}
			if ts, ok := m["mediaTimescale"].(float64); ok {
				m["mediaTimescale"] = ts / 2
			}
		case "stale-timescale": // other timescale and default duration, init gone, table kept
			if image {
				return fmt.Errorf("not for images")
			}
			m["initURI"] = "gone/init.mp4"
			if ts, ok := m["mediaTimescale"].(float64); ok {
				m["mediaTimescale"] = ts * 2
			}
			m["defaultSampleDuration"] = 7
			m["mpdTimescale"] = 3
			m["codecs"] = "stale"
		}
		out, _ := json.Marshal(m)
		var buf bytes.Buffer
		zw := gzip.NewWriter(&buf)
		_, _ = zw.Write(out)
		_ = zw.Close()
		return os.WriteFile(p, buf.Bytes(), 0o644)
	case "plain", "plain-garbage":
		kind, s := cacheObs(dir, d.Asset, d.Rep)
		if kind != "data" {
			return fmt.Errorf("no data")
		}
		b, _ := json.Marshal(s)
		if d.Kind == "plain-garbage" {
			b = b[:len(b)/2]
		}
		if err := os.Remove(p); err != nil {
			return err
		}
		return os.WriteFile(strings.TrimSuffix(p, ".gz"), b, 0o644)
	}
	return fmt.Errorf("unknown damage")
}

// emit registers one case for the model.
func (s *synRunner) emit(in synInput, fsys fs.FS, mpds string, dirBefore, dirAfter string, write, consolidate bool, out runOut) string {
	id := fmt.Sprintf("%d", s.nextID)
	s.nextID++
	s.c.Res.Inputs[id] = in
	if out.panic != "" {
		s.c.Fail(id, "panic:loader:"+firstWords(out.panic), "the loader panicked: "+out.panic, in)
	}
	mode := modeTerm(dirAfter, write)
	cacheAfter := cacheAfterTerm(dirAfter, in.Layouts)
	if out.panic != "" {
		cacheAfter = "[]" // whatever was written before the panic is not compared
	}
	s.terms = append(s.terms, fmt.Sprintf("{| c_id := %s; c_mode := %s; c_consolidate := %s;\n c_mpds := %s;\n c_cache := %s;\n o_err := %s; o_panic := %s;\n o_assets := %s;\n o_cache := %s |}",
		id, mode, lib.Cbool(consolidate), mpds, cacheTerm(dirBefore, in.Layouts), lib.Cbool(out.err != nil), lib.Cbool(out.panic != ""), assetsTerm(out.assets), cacheAfter))
	s.nCases++
	// distinct cases: by the model's input (mode, MPD list, cache before) and the observed outcome
	h := sha256.Sum256([]byte(mode + "|" + mpds + "|" + cacheTerm(dirBefore, in.Layouts) + "|" + assetsTerm(out.assets)))
	if s.distinct == nil {
		s.distinct = map[[32]byte]bool{}
	}
	s.distinct[h] = true
	return id
}

func firstWords(s string) string {
	if i := strings.Index(s, "\n"); i >= 0 {
		s = s[:i]
	}
	if len(s) > 120 {
		s = s[:120]
	}
	return s
}

// runLayouts runs the whole sequence of server starts for a group of layouts (one vod tree).
func (s *synRunner) runLayouts(ls []layout, rng *rand.Rand, nDamage int, only *synInput) {
	c := s.c
	fsys := renderAll(ls)
	s.flush(false) // a definition and the cases that use it stay in one file
	mpds := fmt.Sprintf("L%d", s.nDefs)
	s.nDefs++
	fmt.Fprintf(&s.defs, "Definition %s : mpd_list :=\n %s.\n", mpds, mpdListTerm(fsys, ls))
	timeMode := map[string]bool{}
	for _, l := range ls {
		for _, m := range l.MPDs {
			for _, as := range m.Sets {
				for _, r := range as.Reps {
					if !strings.Contains(as.Media, "$Number$") {
						timeMode[l.Asset+"/"+r.ID] = true
					}
				}
			}
		}
	}
	var names []string
	for _, l := range ls {
		names = append(names, l.Note)
	}
	base := func(mode string, d *damage) synInput {
		return synInput{Part: "synthetic", Notes: strings.Join(names, ","), Layouts: ls, Mode: mode, Damage: d}
	}

	// 1. scan
	scan := discover(fsys, "", false)
	in := base("scan", nil)
	id := s.emit(in, fsys, mpds, "", "", false, true, scan)
	if scan.panic != "" {
		return
	}
	s.checkServed(id, scan.assets, in, timeMode)
	if len(scan.assets) > 0 {
		s.admit["served"] += len(scan.assets)
	}
	s.admit["left-out"] += len(ls) - len(scan.assets)
	// 2. loadAsset only (no consolidation): shows partially filled assets directly
	lo := loadOnly(fsys, "", false, mpdPaths(ls))
	s.emit(base("load-only", nil), fsys, mpds, "", "", false, false, lo)

	// 3. write mode into an empty directory
	dir := filepath.Join(s.scratch, fmt.Sprintf("c%d", s.nextID))
	_ = os.MkdirAll(dir, 0o755)
	defer os.RemoveAll(dir)
	wr := discover(fsys, dir, true)
	in = base("write", nil)
	id = s.emit(in, fsys, mpds, "", dir, true, true, wr)
	if wr.panic != "" {
		return
	}
	if servedView(wr.assets) != servedView(scan.assets) || (wr.err != nil) != (scan.err != nil) {
		sym, what := describeDiff(scan.assets, wr.assets)
		c.Fail(id, "write-mode:"+sym, "write mode serves something else than scan mode: "+what, in)
	}
	files1 := readTree(dir)
	// the stored fields are what the scanning server holds (the oracle pair load(write r) = stored_fields r)
	for _, a := range wr.assets {
		for _, r := range a.Reps {
			kind, st := cacheObs(dir, a.AssetPath, r.ID)
			if kind != "data" {
				c.Fail(id, "write-mode:file-missing", fmt.Sprintf("no readable cache file for %s/%s after write mode", a.AssetPath, r.ID), in)
				continue
			}
			ok := st.ID == r.ID && st.ContentType == r.ContentType && st.Codecs == r.Codecs && st.MpdTimescale == r.MpdTimescale &&
				st.MediaTimescale == r.MediaTimescale && st.InitURI == r.InitURI && st.MediaURI == r.MediaURI &&
				st.DefaultSampleDuration == r.DefaultSampleDuration && st.PreEncrypted == r.PreEncrypted &&
				(st.ConstantSampleDuration != nil) == r.HasConstantSampleDur && len(st.Segments) == len(r.Segments)
			if ok && r.HasConstantSampleDur {
				ok = *st.ConstantSampleDuration == r.ConstantSampleDuration
			}
			for k := 0; ok && k < len(r.Segments); k++ {
				ok = st.Segments[k].StartTime == r.Segments[k].StartTime && st.Segments[k].EndTime == r.Segments[k].EndTime && st.Segments[k].Nr == r.Segments[k].Nr
			}
			if !ok {
				c.Fail(id, "write-mode:stored-fields", fmt.Sprintf("cache file of %s/%s does not hold the loaded fields", a.AssetPath, r.ID), in)
			}
		}
	}

	// 4. cache mode
	rd := discover(fsys, dir, false)
	in = base("read", nil)
	id = s.emit(in, fsys, mpds, dir, dir, false, true, rd)
	if rd.panic != "" {
		return
	}
	if servedView(rd.assets) != servedView(scan.assets) || (rd.err != nil) != (scan.err != nil) {
		sym, what := describeDiff(scan.assets, rd.assets)
		c.Fail(id, "cache:"+sym, "cache mode serves something else than scan mode: "+what, in)
	}
	s.checkServed(id, rd.assets, in, timeMode)
	if files2 := readTree(dir); !sameTree(files1, files2) {
		c.Fail(id, "cache:files-changed", "cache mode changed the cache files", in)
	}

	// 5. write again over the existing files: idempotent
	wr2 := discover(fsys, dir, true)
	in = base("rewrite", nil)
	id = s.emit(in, fsys, mpds, dir, dir, true, true, wr2)
	if files2 := readTree(dir); !sameTree(files1, files2) {
		c.Fail(id, "idempotence:files-differ", "a second write-mode start produced different cache files", in)
	}
	if servedView(wr2.assets) != servedView(scan.assets) {
		c.Fail(id, "idempotence:served-differ", "a second write-mode start serves something else", in)
	}

	// 6. damaged cache directories
	var keys []string
	for k := range files1 {
		if strings.HasSuffix(k, "_data.json.gz") {
			keys = append(keys, k)
		}
	}
	sort.Strings(keys)
	if (only == nil && !s.skipHist) || (only != nil && (strings.HasPrefix(only.Mode, "history") || strings.Contains(only.Mode, "write-over-damaged"))) {
		s.histories(ls, fsys, mpds, scan, files1, keys, dir, rng, base, only)
	}
	if len(keys) == 0 {
		return
	}
	var dmgs []damage
	if only != nil && only.Damage != nil {
		dmgs = []damage{*only.Damage}
	} else {
		kinds := []string{"delete", "truncate", "flip", "plain", "plain-garbage", "empty-gz", "truncate", "flip", "delete-all", "gz-of-nothing",
			"type-error", "type-error", "stale-init", "stale-media", "stale-empty", "stale-timescale"}
		for i := 0; i < nDamage; i++ {
			k := keys[rng.Intn(len(keys))]
			asset, file := filepath.Dir(k), filepath.Base(k)
			d := damage{Kind: kinds[rng.Intn(len(kinds))], Asset: asset, Rep: strings.TrimSuffix(file, "_data.json.gz")}
			n := len(files1[k])
			switch d.Kind {
			case "truncate":
				d.Offset = []int{0, 1, 9, 10, n / 2, n - 9, n - 8, n - 4, n - 1}[rng.Intn(9)]
				if d.Offset < 0 {
					d.Offset = 0
				}
			case "flip":
				d.Offset = rng.Intn(n)
			case "type-error":
				d.Offset = rng.Intn(6)
			}
			dmgs = append(dmgs, d)
		}
	}
	for _, d := range dmgs {
		d := d
		ddir := dir + "_d"
		_ = os.RemoveAll(ddir)
		writeTree(ddir, files1)
		if err := applyDamage(ddir, d); err != nil {
			_ = os.RemoveAll(ddir)
			continue
		}
		out := discover(fsys, ddir, false)
		in = base("read-damaged", &d)
		id = s.emit(in, fsys, mpds, ddir, ddir, false, true, out)
		c.Count("cache-damage:" + d.Kind)
		if out.panic == "" && (servedView(out.assets) != servedView(scan.assets) || (out.err != nil) != (scan.err != nil)) {
			sym, what := describeDiffFor(scan.assets, out.assets, d.Asset)
			kind, _ := cacheObs(ddir, d.Asset, d.Rep)
			c.Fail(id, "damaged-cache:"+kind+":"+sym, fmt.Sprintf("cache file of %s/%s damaged (%s, loader sees it as %s): %s", d.Asset, d.Rep, d.Kind, kind, what), in)
		}
		_ = os.RemoveAll(ddir)
	}
}

// changedVersion is a later version of the same assets: every representation with at least two
// segments lost its last one (files, and one segment of the SegmentTimeline).
func changedVersion(ls []layout) []layout {
	out := make([]layout, len(ls))
	for i, l := range ls {
		nl := l
		nl.MPDs = make([]mpdSpec, len(l.MPDs))
		for j, m := range l.MPDs {
			nm := m
			nm.Sets = make([]asSpec, len(m.Sets))
			for k, as := range m.Sets {
				na := as
				na.Reps = make([]repSpec, len(as.Reps))
				for q, r := range as.Reps {
					nr := r
					if len(r.Segs) >= 2 {
						nr.Segs = append([]segSpec{}, r.Segs[:len(r.Segs)-1]...)
					}
					na.Reps[q] = nr
				}
				if as.HasTimeline && len(as.Timeline) > 0 {
					tl := append([]sEntry{}, as.Timeline...)
					if tl[len(tl)-1].R > 0 {
						tl[len(tl)-1].R--
					} else if len(tl) > 1 {
						tl = tl[:len(tl)-1]
					}
					na.Timeline = tl
				}
				nm.Sets[k] = na
			}
			nl.MPDs[j] = nm
		}
		out[i] = nl
	}
	return out
}

// histories runs sequences of server starts over ONE metadata directory: write over damaged files,
// and write / asset changes / write again / read-only.
func (s *synRunner) histories(ls []layout, fsys fs.FS, mpds string, scan runOut, files1 map[string][]byte, keys []string, dir string, rng *rand.Rand, base func(string, *damage) synInput, only *synInput) {
	c := s.c
	// 7. a write run over a damaged directory refreshes every file; a read-only start then equals the scan
	if len(keys) > 0 {
		kinds := []string{"truncate", "flip", "type-error", "stale-timescale", "stale-empty", "plain-garbage", "empty-gz"}
		k := keys[rng.Intn(len(keys))]
		d := damage{Kind: kinds[rng.Intn(len(kinds))], Asset: filepath.Dir(k), Rep: strings.TrimSuffix(filepath.Base(k), "_data.json.gz")}
		switch d.Kind {
		case "truncate":
			d.Offset = len(files1[k]) / 2
		case "flip":
			d.Offset = rng.Intn(len(files1[k]))
		case "type-error":
			d.Offset = rng.Intn(6)
		}
		if only != nil && only.Damage != nil && strings.Contains(only.Mode, "write-over-damaged") {
			d = *only.Damage
		}
		hdir := dir + "_h"
		_ = os.RemoveAll(hdir)
		writeTree(hdir, files1)
		if applyDamage(hdir, d) == nil {
			c.Count("history:write-over-" + d.Kind)
			wr := discover(fsys, hdir, true)
			in := base("write-over-damaged", &d)
			id := s.emit(in, fsys, mpds, hdir, hdir, true, true, wr)
			after := readTree(hdir)
			for k, v := range files1 {
				if string(after[k]) != string(v) {
					c.Fail(id, "history:write-does-not-refresh:"+d.Kind, fmt.Sprintf("write run over a directory whose file %s was damaged (%s): afterwards the file has %d bytes, a write run into an empty directory gives %d bytes", k, d.Kind, len(after[k]), len(v)), in)
					break
				}
			}
			rd := discover(fsys, hdir, false)
			in = base("read-after-write-over-damaged", &d)
			id = s.emit(in, fsys, mpds, hdir, hdir, false, true, rd)
			if rd.panic == "" && servedView(rd.assets) != servedView(scan.assets) {
				sym, what := describeDiff(scan.assets, rd.assets)
				c.Fail(id, "history:read-after-write:"+sym, "read-only start after a write run over damaged files differs from scan: "+what, in)
			}
		}
		_ = os.RemoveAll(hdir)
	}
	// 8. write (version 1), the asset changes, write again (version 2), read-only start
	ls2 := changedVersion(ls)
	fsys2 := renderAll(ls2)
	mpds2 := fmt.Sprintf("L%d", s.nDefs)
	s.nDefs++
	fmt.Fprintf(&s.defs, "Definition %s : mpd_list :=\n %s.\n", mpds2, mpdListTerm(fsys2, ls2))
	base2 := func(mode string) synInput {
		in := base(mode, nil)
		return in
	}
	scan2 := discover(fsys2, "", false)
	if scan2.panic != "" {
		return
	}
	hdir, fdir := dir+"_h2", dir+"_f2"
	_ = os.RemoveAll(hdir)
	_ = os.RemoveAll(fdir)
	defer os.RemoveAll(hdir)
	defer os.RemoveAll(fdir)
	writeTree(hdir, files1)
	_ = os.MkdirAll(fdir, 0o755)
	c.Count("history:write-change-write-read")
	w2 := discover(fsys2, hdir, true)
	in := base2("history-write")
	in.Layouts = ls2
	in.Before = ls
	id := s.emit(in, fsys2, mpds2, hdir, hdir, true, true, w2)
	wf := discover(fsys2, fdir, true)
	_ = wf
	filesH, filesF := readTree(hdir), readTree(fdir)
	leftover := false
	for k := range filesH {
		if _, ok := filesF[k]; !ok {
			leftover = true
		}
	}
	for k, v := range filesF {
		if string(filesH[k]) != string(v) {
			c.Fail(id, "history:write-does-not-refresh:changed-asset", fmt.Sprintf("write run after the asset changed: file %s has %d bytes, a write run into an empty directory gives %d bytes", k, len(filesH[k]), len(v)), in)
			break
		}
	}
	rd2 := discover(fsys2, hdir, false)
	in = base2("history-read")
	in.Layouts = ls2
	in.Before = ls
	id = s.emit(in, fsys2, mpds2, hdir, hdir, false, true, rd2)
	if !leftover && rd2.panic == "" && servedView(rd2.assets) != servedView(scan2.assets) {
		sym, what := describeDiff(scan2.assets, rd2.assets)
		c.Fail(id, "history:cache-serves-old-asset:"+sym, "write, asset changed, write again, read-only start: differs from a scanning server over the current asset: "+what, in)
	}
}

func sameTree(a, b map[string][]byte) bool {
	if len(a) != len(b) {
		return false
	}
	for k, v := range a {
		if w, ok := b[k]; !ok || string(v) != string(w) {
			return false
		}
	}
	return true
}

func runC15(c *lib.Ctx) error {
	// ~10^4 responses of up to 300 KB are produced and dropped: keep the heap small on a loaded machine
	debug.SetGCPercent(50)
	debug.SetMemoryLimit(768 << 20)
	scratch := filepath.Join("/verif/.scratch", fmt.Sprintf("%d", os.Getpid()))
	if err := os.MkdirAll(scratch, 0o755); err != nil {
		return err
	}
	if os.Getenv("C15_KEEP") == "" {
		defer os.RemoveAll(scratch)
	}
	if c.Replay != "" {
		return replayC15(c, scratch)
	}
	rng := rand.New(rand.NewSource(c.Seed))
	s := &synRunner{c: c, scratch: scratch, admit: map[string]int{}}
	t0 := time.Now()

	// Part S: structured layouts one by one, then random ones, then groups (several assets in one tree)
	structured := structuredLayouts()
	nDamage, nRandom, nGroups := 4, 40, 4
	if c.Thorough() {
		nDamage, nRandom, nGroups = 9, 2000, 150
	}
	for i, l := range structured {
		if i%40 == 0 {
			memdbg(fmt.Sprintf("structured %d", i))
		}
		c.Count("layout:" + l.Note)
		s.runLayouts([]layout{l}, rng, nDamage, nil)
	}
	for k := 0; k < nRandom; k++ {
		c.Count("layout:random")
		s.skipHist = !c.Thorough() && k%2 == 1
		s.runLayouts([]layout{randomLayout(rng, k)}, rng, nDamage, nil)
		s.skipHist = false
	}
	for g := 0; g < nGroups; g++ {
		var ls []layout
		for j := 0; j < 2+rng.Intn(3); j++ {
			if rng.Intn(2) == 0 {
				ls = append(ls, structured[rng.Intn(len(structured))])
			} else {
				ls = append(ls, randomLayout(rng, 1000+g*10+j))
			}
		}
		// distinct asset paths
		seen := map[string]bool{}
		var uniq []layout
		for _, l := range ls {
			if !seen[l.Asset] {
				seen[l.Asset] = true
				uniq = append(uniq, l)
			}
		}
		c.Count("layout:group")
		s.runLayouts(uniq, rng, nDamage, nil)
	}
	s.flush(true)
	for k, v := range s.admit {
		c.Res.Distribution["assets:"+k] += v
	}

	memdbg("after part S")
	tS := time.Since(t0)
	// Part B: complete servers over the bundled assets
	nB, err := runBundled(c, scratch, rng)
	c.Res.Notes = append(c.Res.Notes, fmt.Sprintf("wall time: part S %.1fs, part B %.1fs", tS.Seconds(), (time.Since(t0)-tS).Seconds()))
	if err != nil {
		return err
	}

	if pf := os.Getenv("C15_HEAPPROF"); pf != "" {
		if f, err := os.Create(pf); err == nil {
			_ = pprof.WriteHeapProfile(f)
			f.Close()
		}
	}
	c.Res.Evaluations = s.nCases + nB
	c.Res.ModelCases = s.nCases
	c.Res.DistinctNontrivial = len(s.distinct) + nBDistinct
	c.Res.Rule = "Part S: asset layouts rendered with mp4ff (one per loader/admission branch and both sides of each condition, random combinations, " +
		"groups of assets), each started in scan / loadAsset-only / write / cache / rewrite mode and with damaged cache files (deleted, truncated, " +
		"byte flipped, plain JSON, cut JSON, empty file); one case = one loader run compared with the Coq model. Part B: complete servers over the " +
		"bundled assets, one evaluation = one HTTP response byte-compared between the scanning server and a cache-started server. " +
		"distinct = loader runs with distinct (mode, MPD list, cache directory, resulting asset tables), counted by hash, plus distinct (instance, URL) pairs of part B whose scan response was 200; a run is non-trivial when it loads at least one MPD"
	return nil
}

func replayC15(c *lib.Ctx, scratch string) error {
	in, err := lib.LoadReplayInput[map[string]any](c.Replay)
	if err != nil {
		return err
	}
	raw, _ := json.Marshal(in)
	if in["part"] == "bundled" {
		var bi bundledInput
		if err := json.Unmarshal(raw, &bi); err != nil {
			return err
		}
		return replayBundled(c, scratch, bi)
	}
	var si synInput
	if err := json.Unmarshal(raw, &si); err != nil {
		return err
	}
	s := &synRunner{c: c, scratch: scratch, admit: map[string]int{}}
	start := si.Layouts
	if si.Before != nil {
		start = si.Before
	}
	s.runLayouts(start, rand.New(rand.NewSource(c.Seed)), 0, &si)
	s.flush(true)
	for _, f := range c.Res.OracleFailures {
		fmt.Printf("replay C15: %s: %s\n", f.Key, f.What)
	}
	// keep only the failures of the replayed mode
	var keep []lib.Failure
	for _, f := range c.Res.OracleFailures {
		if fi, ok := f.Input.(synInput); ok && fi.Mode == si.Mode {
			keep = append(keep, f)
		}
	}
	c.Res.OracleFailures = keep
	if c.Res.OracleFailures == nil {
		c.Res.OracleFailures = []lib.Failure{}
	}
	return nil
}
