package main

// Observations handed to the Coq model (theories/Cache.v), computed by the harness itself from the
// rendered files (mp4ff for the boxes, own gunzip + JSON parse for the cache files), and the printers
// for the Coq terms of theories/CorrC15.v.

import (
	"bytes"
	"compress/gzip"
	"encoding/json"
	"fmt"
	"io"
	"io/fs"
	"os"
	"path/filepath"
	"sort"
	"strconv"
	"strings"
	"testing/fstest"
	"unicode/utf8"

	"github.com/Dash-Industry-Forum/livesim2/cmd/livesim2/app"
	"github.com/Eyevinn/mp4ff/bits"
	"github.com/Eyevinn/mp4ff/mp4"
	"verifharness/lib"
)

// coqStr quotes a Go string as a Coq string literal. Valid UTF-8 passes through byte for byte (a Coq
// string is the list of the bytes of the literal, and Go compares and sorts strings bytewise too), so
// non-ASCII representation ids and asset paths reach the model unchanged.
func coqStr(s string) string {
	var sb strings.Builder
	sb.WriteString("\"")
	for _, r := range s {
		switch {
		case r == '"':
			sb.WriteString("\"\"")
		case r < 32 || r == 127 || r == utf8.RuneError:
			sb.WriteString("?")
		default:
			sb.WriteRune(r)
		}
	}
	sb.WriteString("\"")
	return sb.String()
}

func optZ(v *uint32) string {
	if v == nil {
		return "None"
	}
	return fmt.Sprintf("(Some %d)", *v)
}

// initObs observes an init segment as the model's init_obs.
func initObs(fsys fs.FS, p string) (string, *mp4.TrexBox) {
	data, err := fs.ReadFile(fsys, p)
	if err != nil {
		return "IBad", nil
	}
	f, err := mp4.DecodeFile(bytes.NewReader(data))
	if err != nil || f.Init == nil || f.Init.Moov == nil || f.Init.Moov.Trak == nil || f.Init.Moov.Mvex == nil || f.Init.Moov.Mvex.Trex == nil {
		return "IBad", nil
	}
	trex := f.Init.Moov.Mvex.Trex
	return fmt.Sprintf("(IOk %d %d false)", f.Init.Moov.Trak.Mdia.Mdhd.Timescale, trex.DefaultSampleDuration), trex
}

// segObs observes a media segment file as the model's fobs.
// decodeMP4 decodes with the slice reader (as the loader does); a panic inside mp4ff is an error here.
func decodeMP4(data []byte) (f *mp4.File, err error) {
	defer func() {
		if r := recover(); r != nil {
			err = fmt.Errorf("mp4ff panic: %v", r)
		}
	}()
	return mp4.DecodeFileSR(bits.NewFixedSliceReader(data))
}

func segObs(data []byte, trex *mp4.TrexBox) string {
	f, err := decodeMP4(data)
	if err != nil || len(f.Segments) != 1 {
		return "FBad"
	}
	s := f.Segments[0]
	if len(s.Fragments) == 0 {
		return "FNoFrag"
	}
	if s.Fragments[0].Moof == nil || s.Fragments[0].Moof.Traf == nil {
		return "FBad" // not generated: the loader would dereference nil here
	}
	first := s.Fragments[0].Moof.Traf
	last := s.Fragments[len(s.Fragments)-1].Moof.Traf
	tfhd := "None"
	if last.Tfhd.HasDefaultSampleDuration() {
		tfhd = fmt.Sprintf("(Some %d)", last.Tfhd.DefaultSampleDuration)
	}
	trun := "None"
	if last.Trun.HasSampleDuration() {
		var tot uint64
		for _, sm := range last.Trun.Samples {
			tot += uint64(sm.Dur)
		}
		trun = fmt.Sprintf("(Some %d)", tot)
	}
	csd := "None"
	if d, err := s.CommonSampleDuration(trex); err == nil {
		csd = fmt.Sprintf("(Some %d)", d)
	}
	return fmt.Sprintf("(FSeg {| o_tfdt0 := %d; o_tfdtL := %d; o_tfhd := %s; o_trun := %s; o_count := %d; o_csd := %s |})",
		first.Tfdt.BaseMediaDecodeTime(), last.Tfdt.BaseMediaDecodeTime(), tfhd, trun, last.Trun.SampleCount(), csd)
}

func fileObs(fsys fs.FS, p string, image bool, trex *mp4.TrexBox) string {
	data, err := fs.ReadFile(fsys, p)
	if err != nil {
		return "FMissing"
	}
	if image {
		return "(FSeg {| o_tfdt0 := 0; o_tfdtL := 0; o_tfhd := None; o_trun := None; o_count := 0; o_csd := None |})"
	}
	return segObs(data, trex)
}

// repTerm prints the model's mpd_rep for one representation of an adaptation set.
func repTerm(fsys fs.FS, asset string, as asSpec, r repSpec) string {
	initURI := replaceIDs(as.Init, r.ID)
	mediaURI := replaceIDs(as.Media, r.ID)
	image := as.ContentType == "image"
	trex := (*mp4.TrexBox)(nil)
	if !image {
		_, trex = initObs(fsys, pathJoin(asset, initURI))
	}
	// every init segment of the asset by URI (a stale metadata file may name another one than the MPD)
	var inits []string
	_ = fs.WalkDir(fsys, asset, func(p string, d fs.DirEntry, err error) error {
		if err == nil && !d.IsDir() && (strings.HasSuffix(p, "init.mp4") || p == pathJoin(asset, initURI)) {
			o, _ := initObs(fsys, p)
			inits = append(inits, fmt.Sprintf("(%s, %s)", coqStr(strings.TrimPrefix(p, asset+"/")), o))
		}
		return nil
	})
	sort.Strings(inits)
	iobs := "(inits_of [" + strings.Join(inits, "; ") + "])"
	// $Number$ files
	var files []string
	if strings.Contains(mediaURI, "$Number$") {
		start := uint32(1)
		if as.StartNr != nil {
			start = *as.StartNr
		}
		for k := uint32(0); k < 64; k++ {
			nr := start + k // uint32 wrap as in the loader
			name := strings.ReplaceAll(strings.ReplaceAll(mediaURI, "$Time$", "0"), "$Number$", strconv.Itoa(int(nr)))
			o := fileObs(fsys, pathJoin(asset, name), image, trex)
			files = append(files, o)
			if o == "FMissing" {
				break
			}
		}
	}
	// $Time$ files
	var tfiles []string
	if !strings.Contains(mediaURI, "$Number$") && strings.Contains(mediaURI, "$Time$") {
		i := strings.Index(mediaURI, "$Time$")
		pre, suf := pathJoin(asset, mediaURI[:i]), mediaURI[i+len("$Time$"):]
		var names []string
		_ = fs.WalkDir(fsys, ".", func(p string, d fs.DirEntry, err error) error {
			if err == nil && !d.IsDir() && strings.HasPrefix(p, pre) && strings.HasSuffix(p, suf) {
				names = append(names, p)
			}
			return nil
		})
		sort.Strings(names)
		for _, p := range names {
			mid := p[len(pre) : len(p)-len(suf)]
			t, err := strconv.ParseUint(mid, 10, 63)
			if err != nil || strconv.FormatUint(t, 10) != mid {
				continue
			}
			tfiles = append(tfiles, fmt.Sprintf("(%d, %s)", t, fileObs(fsys, p, image, trex)))
		}
	}
	timeline := "None"
	if as.HasTimeline {
		var es []string
		for _, e := range as.Timeline {
			t := "None"
			if e.T != nil {
				t = fmt.Sprintf("(Some %d)", *e.T)
			}
			es = append(es, fmt.Sprintf("{| e_t := %s; e_d := %d; e_r := %s |}", t, e.D, lib.Zs(int64(e.R))))
		}
		timeline = "(Some [" + strings.Join(es, "; ") + "])"
	}
	return fmt.Sprintf("{| m_id := %s; m_ctype := %s; m_as_codecs := %s; m_rep_codecs := %s; m_inituri := %s; m_mediauri := %s; "+
		"m_timescale := %s; m_timeline := %s; m_startnr := %s; m_endnr := %s; m_duration := %s; m_init_at := %s; "+
		"m_files := [%s]; m_tfiles := tfiles_of [%s] |}",
		coqStr(r.ID), coqStr(as.ContentType), coqStr(as.Codecs), coqStr(r.Codecs),
		coqStr(initURI), coqStr(mediaURI), optZ(as.StTimescale), timeline, optZ(as.StartNr), optZ(as.EndNr),
		optZ(as.Duration), iobs, strings.Join(files, "; "), strings.Join(tfiles, "; "))
}

func pathJoin(a, b string) string {
	if b == "" {
		return a
	}
	return a + "/" + b
}

// mpdListTerm prints the model's mpd_list for a set of layouts, in fs.WalkDir order.
func mpdListTerm(fsys fs.FS, ls []layout) string {
	type ent struct{ path, term string }
	var ents []ent
	for _, l := range ls {
		for _, m := range l.MPDs {
			obs := "MBad"
			if m.Kind == "ok" || m.Kind == "no_type" || m.Kind == "no_duration" || m.Kind == "no_type_no_duration" {
				var sets []string
				for _, as := range m.Sets {
					var reps []string
					for _, r := range as.Reps {
						reps = append(reps, fmt.Sprintf("(%s, %s)", lib.Cbool(r.RepTemplate), repTerm(fsys, l.Asset, as, r)))
					}
					sets = append(sets, fmt.Sprintf("{| as_has_template := %s; as_ctype := %s; as_reps := [%s] |}",
						lib.Cbool(!as.NoTemplate), coqStr(as.ContentType), strings.Join(reps, ";\n    ")))
				}
				ctor := "MOk"
				switch m.Kind {
				case "no_type":
					ctor = "MNoType"
				case "no_duration", "no_type_no_duration":
					ctor = "MNoDur"
				}
				obs = "(" + ctor + " [" + strings.Join(sets, ";\n   ") + "])"
			}
			ents = append(ents, ent{l.Asset + "/" + m.Name, fmt.Sprintf("(%s, %s, %s)", coqStr(l.Asset), coqStr(m.Name), obs)})
		}
	}
	// fs.WalkDir visits directory entries in lexical order, level by level
	sort.Slice(ents, func(i, j int) bool { return walkLess(ents[i].path, ents[j].path) })
	var ts []string
	for _, e := range ents {
		ts = append(ts, e.term)
	}
	return "[" + strings.Join(ts, ";\n  ") + "]"
}

// walkLess orders two slash-separated paths as fs.WalkDir visits them.
func walkLess(a, b string) bool {
	as, bs := strings.Split(a, "/"), strings.Split(b, "/")
	for i := 0; i < len(as) && i < len(bs); i++ {
		if as[i] != bs[i] {
			return as[i] < bs[i]
		}
	}
	return len(as) < len(bs)
}

// storedJSON mirrors the JSON written by writeToJSON (field names are part of the file format).
type storedJSON struct {
	ID             string `json:"id"`
	ContentType    string `json:"contentType"`
	Codecs         string `json:"codecs"`
	MpdTimescale   int    `json:"mpdTimescale"`
	MediaTimescale int    `json:"mediaTimescale"`
	InitURI        string `json:"initURI"`
	MediaURI       string `json:"mediaURI"`
	Segments       []struct {
		StartTime uint64 `json:"startTime"`
		EndTime   uint64 `json:"endTime"`
		Nr        uint32 `json:"nr"`
	} `json:"segments"`
	DefaultSampleDuration  uint32  `json:"defaultSampleDuration"`
	ConstantSampleDuration *uint32 `json:"constantSampleDuration,omitempty"`
	PreEncrypted           bool    `json:"preEncrypted"`
}

func (s storedJSON) term() string {
	var segs []string
	for _, g := range s.Segments {
		segs = append(segs, fmt.Sprintf("{| st := %d; en := %d; snr := %d |}", g.StartTime, g.EndTime, g.Nr))
	}
	return fmt.Sprintf("{| s_id := %s; s_ctype := %s; s_codecs := %s; s_mpdts := %d; s_mediats := %d; s_inituri := %s; s_mediauri := %s; "+
		"s_segs := [%s]; s_dsd := %d; s_const := %s; s_preenc := %s |}",
		coqStr(s.ID), coqStr(s.ContentType), coqStr(s.Codecs), s.MpdTimescale, s.MediaTimescale,
		coqStr(s.InitURI), coqStr(s.MediaURI), strings.Join(segs, "; "), s.DefaultSampleDuration,
		optZ(s.ConstantSampleDuration), lib.Cbool(s.PreEncrypted))
}

// cacheObs classifies the cache file(s) of one representation the way loadFromJSON will find them:
// "absent", "broken", or the decoded contents.
func cacheObs(dir, asset, id string) (kind string, s storedJSON) {
	base := filepath.Join(dir, asset, id+"_data.json")
	var data []byte
	if _, err := os.Stat(base + ".gz"); err == nil {
		raw, err := os.ReadFile(base + ".gz")
		if err != nil {
			return "broken", s
		}
		zr, err := gzip.NewReader(bytes.NewReader(raw))
		if err != nil {
			return "broken", s
		}
		data, err = io.ReadAll(zr)
		if err != nil {
			return "broken", s
		}
	}
	if len(data) == 0 {
		if _, err := os.Stat(base); err == nil {
			var err error
			data, err = os.ReadFile(base)
			if err != nil {
				return "broken", s
			}
		}
	}
	if len(data) == 0 {
		return "absent", s
	}
	dec := json.NewDecoder(bytes.NewReader(data))
	if err := dec.Decode(&s); err != nil {
		return "broken", s
	}
	// json.Unmarshal rejects trailing data
	if _, err := dec.Token(); err != io.EOF {
		return "broken", s
	}
	return "data", s
}

func cobsTerm(kind string, s storedJSON) string {
	switch kind {
	case "absent":
		return "CAbsent"
	case "broken":
		return "CBroken"
	}
	return "(CBytes " + s.term() + ")"
}

// repIDs lists (asset, rep id) of all representations of the layouts.
func repIDs(ls []layout) [][2]string {
	var out [][2]string
	seen := map[[2]string]bool{}
	for _, l := range ls {
		for _, m := range l.MPDs {
			for _, as := range m.Sets {
				for _, r := range as.Reps {
					k := [2]string{l.Asset, r.ID}
					if !seen[k] {
						seen[k] = true
						out = append(out, k)
					}
				}
			}
		}
	}
	return out
}

func cacheTerm(dir string, ls []layout) string {
	if dir == "" {
		return "[]"
	}
	var ts []string
	for _, k := range repIDs(ls) {
		kind, s := cacheObs(dir, k[0], k[1])
		if kind == "absent" {
			continue
		}
		ts = append(ts, fmt.Sprintf("(%s, %s, %s)", coqStr(k[0]), coqStr(k[1]), cobsTerm(kind, s)))
	}
	return "[" + strings.Join(ts, ";\n  ") + "]"
}

func cacheAfterTerm(dir string, ls []layout) string {
	if dir == "" {
		return "[]"
	}
	var ts []string
	for _, k := range repIDs(ls) {
		kind, s := cacheObs(dir, k[0], k[1])
		switch kind {
		case "absent":
			ts = append(ts, fmt.Sprintf("(%s, %s, None)", coqStr(k[0]), coqStr(k[1])))
		case "data":
			ts = append(ts, fmt.Sprintf("(%s, %s, Some %s)", coqStr(k[0]), coqStr(k[1]), s.term()))
		}
	}
	return "[" + strings.Join(ts, ";\n  ") + "]"
}

func assetsTerm(as []app.VerifC15Asset) string {
	var ats []string
	for _, a := range as {
		var reps []string
		for _, r := range a.Reps {
			var segs []string
			for _, s := range r.Segments {
				segs = append(segs, fmt.Sprintf("(%d, %d, %d, %d)", s.StartTime, s.EndTime, s.Nr, s.CommonSampleDur))
			}
			c := "None"
			if r.HasConstantSampleDur {
				c = fmt.Sprintf("(Some %d)", r.ConstantSampleDuration)
			}
			reps = append(reps, fmt.Sprintf("{| or_id := %s; or_ctype := %s; or_codecs := %s; or_mpdts := %s; or_mediats := %s; "+
				"or_inituri := %s; or_mediauri := %s; or_segs := [%s]; or_dsd := %d; or_const := %s; or_preenc := %s |}",
				coqStr(r.ID), coqStr(r.ContentType), coqStr(r.Codecs), lib.Zs(int64(r.MpdTimescale)),
				lib.Zs(int64(r.MediaTimescale)), coqStr(r.InitURI), coqStr(r.MediaURI), strings.Join(segs, "; "),
				r.DefaultSampleDuration, c, lib.Cbool(r.PreEncrypted)))
		}
		var mpds []string
		for _, m := range a.MPDs {
			mpds = append(mpds, coqStr(m))
		}
		ats = append(ats, fmt.Sprintf("{| oa_path := %s; oa_mpds := [%s]; oa_segdur := %s; oa_loop := %s; oa_ref := %s; oa_reps := [%s] |}",
			coqStr(a.AssetPath), strings.Join(mpds, "; "), lib.Zs(int64(a.SegmentDurMS)), lib.Zs(int64(a.LoopDurMS)),
			coqStr(a.RefRep), strings.Join(reps, ";\n    ")))
	}
	return "[" + strings.Join(ats, ";\n   ") + "]"
}

func modeTerm(dir string, write bool) string {
	switch {
	case dir == "":
		return "mode_scan"
	case write:
		return "mode_write"
	}
	return "mode_read"
}

func renderAll(ls []layout) fstest.MapFS {
	fsys := fstest.MapFS{}
	for _, l := range ls {
		for k, v := range l.render() {
			fsys[k] = v
		}
	}
	return fsys
}
