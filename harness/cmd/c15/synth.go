package main

// Synthetic asset layouts for C15: a layout is a small JSON-able description from which the MPD
// text, the init segments and the media segment files are rendered (mp4ff), so that every case can
// be replayed from its description alone.

import (
	"bytes"
	"encoding/json"
	"fmt"
	"strings"
	"testing/fstest"

	"github.com/Eyevinn/mp4ff/mp4"
)

// segSpec describes one media segment file.
type segSpec struct {
	Kind  string  `json:"kind"`            // ok | missing | garbage | empty
	Name  string  `json:"name"`            // file name without directory, e.g. "3.m4s"
	Tfdt  uint64  `json:"tfdt"`            // decode time of the first fragment
	Durs  durList `json:"durs"`            // sample durations (all fragments together), run-length coded in JSON
	Split int     `json:"split,omitempty"` // >0: samples [split:] go into a second fragment
	// Enc: how durations are written in the LAST fragment: "trun" (per sample), "tfhd" (tfhd default,
	// needs equal durations there), "trex" (neither: the default inherited by the loader applies)
	Enc string `json:"enc"`
}

// durList is a list of sample durations; in JSON it is a list of [duration, count] runs.
type durList []uint32

func (d durList) MarshalJSON() ([]byte, error) {
	runs := [][2]uint32{}
	for _, v := range d {
		if n := len(runs); n > 0 && runs[n-1][0] == v {
			runs[n-1][1]++
		} else {
			runs = append(runs, [2]uint32{v, 1})
		}
	}
	return json.Marshal(runs)
}

func (d *durList) UnmarshalJSON(b []byte) error {
	var runs [][2]uint32
	if err := json.Unmarshal(b, &runs); err != nil {
		return err
	}
	*d = nil
	for _, r := range runs {
		for i := uint32(0); i < r[1]; i++ {
			*d = append(*d, r[0])
		}
	}
	return nil
}

type sEntry struct {
	T *uint64 `json:"t,omitempty"`
	D uint64  `json:"d"`
	R int     `json:"r"`
}

type repSpec struct {
	ID          string    `json:"id"`
	Codecs      string    `json:"codecs,omitempty"` // on the Representation
	Timescale   uint32    `json:"timescale"`        // mdhd
	TrexDur     uint32    `json:"trex_dur"`
	BadInit     bool      `json:"bad_init,omitempty"`
	NoInit      bool      `json:"no_init,omitempty"`
	RepTemplate bool      `json:"rep_template,omitempty"` // SegmentTemplate on Representation level
	Segs        []segSpec `json:"segs"`
}

type asSpec struct {
	ContentType string    `json:"content_type"`
	Codecs      string    `json:"codecs,omitempty"`
	NoTemplate  bool      `json:"no_template,omitempty"`
	Media       string    `json:"media"` // e.g. $RepresentationID$/$Number$.m4s
	Init        string    `json:"init"`
	StTimescale *uint32   `json:"st_timescale,omitempty"`
	Duration    *uint32   `json:"duration,omitempty"`
	StartNr     *uint32   `json:"start_nr,omitempty"`
	EndNr       *uint32   `json:"end_nr,omitempty"`
	Timeline    []sEntry  `json:"timeline,omitempty"` // nil = no SegmentTimeline
	HasTimeline bool      `json:"has_timeline,omitempty"`
	Reps        []repSpec `json:"reps"`
}

type mpdSpec struct {
	Name string   `json:"name"`
	Kind string   `json:"kind"` // ok | garbage | dynamic | two_periods
	Sets []asSpec `json:"sets"`
}

// layout: one asset directory with its MPDs. Representations with the same id in several MPDs
// share the files (the first description wins, as in the loader).
type layout struct {
	Asset string    `json:"asset"`
	MPDs  []mpdSpec `json:"mpds"`
	Note  string    `json:"note,omitempty"`
}

func renderInit(r repSpec, ctype string) []byte {
	if r.BadInit {
		return []byte{0, 0, 0, 9, 'j', 'u', 'n', 'k', 1}
	}
	init := mp4.CreateEmptyInit()
	media := "video"
	if ctype == "audio" {
		media = "audio"
	}
	init.AddEmptyTrack(r.Timescale, media, "und")
	init.Moov.Mvex.Trex.DefaultSampleDuration = r.TrexDur
	var buf bytes.Buffer
	if err := init.Encode(&buf); err != nil {
		panic(err)
	}
	return buf.Bytes()
}

func renderSeg(s segSpec, seq uint32) []byte {
	switch s.Kind {
	case "garbage":
		// not a usable mp4 file: a box that claims 4096 bytes in a 15-byte file (a text file would be read
		// as a box of ~2 GB - "this" = 0x74686973 - and mp4ff allocates that much before it fails)
		return []byte{0, 0, 0x10, 0, 'j', 'u', 'n', 'k', 1, 2, 3, 4, 5, 6, 7}
	case "tinybox":
		return []byte{0, 0, 0, 5, 'j', 'u', 'n', 'k', 1, 2, 3, 4, 5, 6, 7} // box size below the header size
	case "empty":
		return []byte{}
	case "styponly":
		var buf bytes.Buffer
		if err := mp4.NewMediaSegment().Styp.Encode(&buf); err != nil {
			panic(err)
		}
		return buf.Bytes()
	}
	seg := mp4.NewMediaSegment()
	seg.EncOptimize = mp4.OptimizeNone
	parts := [][]uint32{s.Durs}
	if s.Split > 0 && s.Split < len(s.Durs) {
		parts = [][]uint32{s.Durs[:s.Split], s.Durs[s.Split:]}
	}
	t := s.Tfdt
	for pi, part := range parts {
		frag, err := mp4.CreateFragment(seq+uint32(pi), 1)
		if err != nil {
			panic(err)
		}
		frag.EncOptimize = mp4.OptimizeNone
		seg.AddFragment(frag)
		for i, d := range part {
			frag.AddFullSample(mp4.FullSample{
				Sample:     mp4.Sample{Flags: mp4.SyncSampleFlags, Dur: d, Size: 2, CompositionTimeOffset: 0},
				DecodeTime: t,
				Data:       []byte{byte(seq), byte(i)},
			})
			t += uint64(d)
		}
		if len(part) == 0 {
			frag.Moof.Traf.Tfdt.SetBaseMediaDecodeTime(t)
		}
		last := pi == len(parts)-1
		enc := s.Enc
		if !last {
			enc = "trun"
		}
		switch enc {
		case "tfhd":
			frag.Moof.Traf.Trun.Flags &^= mp4.TrunSampleDurationPresentFlag
			frag.Moof.Traf.Tfhd.Flags |= 0x8
			if len(part) > 0 {
				frag.Moof.Traf.Tfhd.DefaultSampleDuration = part[0]
			}
		case "trex":
			frag.Moof.Traf.Trun.Flags &^= mp4.TrunSampleDurationPresentFlag
		}
	}
	var buf bytes.Buffer
	if err := seg.Encode(&buf); err != nil {
		panic(err)
	}
	return buf.Bytes()
}

func u32attr(name string, v *uint32) string {
	if v == nil {
		return ""
	}
	return fmt.Sprintf(` %s="%d"`, name, *v)
}

func renderMPD(m mpdSpec) []byte {
	switch m.Kind {
	case "garbage":
		return []byte("<MPD this is not xml")
	}
	var sb strings.Builder
	typ := "static"
	if m.Kind == "dynamic" {
		typ = "dynamic"
	}
	typAttr := fmt.Sprintf(` type="%s"`, typ)
	if m.Kind == "no_type" || m.Kind == "no_type_no_duration" {
		typAttr = ""
	}
	durAttr := ` mediaPresentationDuration="PT8S"`
	if m.Kind == "no_duration" || m.Kind == "no_type_no_duration" {
		durAttr = ""
	}
	fmt.Fprintf(&sb, `<?xml version="1.0" encoding="utf-8"?>
<MPD xmlns="urn:mpeg:dash:schema:mpd:2011" profiles="urn:mpeg:dash:profile:isoff-live:2011" minBufferTime="PT2S"%s%s>
`, typAttr, durAttr)
	nPeriods := 1
	if m.Kind == "two_periods" {
		nPeriods = 2
	}
	for p := 0; p < nPeriods; p++ {
		fmt.Fprintf(&sb, " <Period id=\"p%d\" start=\"PT0S\">\n", p)
		for i, as := range m.Sets {
			mime := map[string]string{"video": "video/mp4", "audio": "audio/mp4", "image": "image/jpeg", "text": "application/mp4"}[as.ContentType]
			fmt.Fprintf(&sb, "  <AdaptationSet id=\"%d\" contentType=\"%s\" mimeType=\"%s\"", i+1, as.ContentType, mime)
			if as.Codecs != "" {
				fmt.Fprintf(&sb, " codecs=\"%s\"", as.Codecs)
			}
			sb.WriteString(">\n")
			tmpl := func(indent string) {
				fmt.Fprintf(&sb, "%s<SegmentTemplate media=\"%s\"", indent, as.Media)
				if as.Init != "" {
					fmt.Fprintf(&sb, " initialization=\"%s\"", as.Init)
				}
				sb.WriteString(u32attr("timescale", as.StTimescale) + u32attr("duration", as.Duration) +
					u32attr("startNumber", as.StartNr) + u32attr("endNumber", as.EndNr))
				if as.HasTimeline {
					sb.WriteString(">\n" + indent + " <SegmentTimeline>\n")
					for _, e := range as.Timeline {
						fmt.Fprintf(&sb, "%s  <S", indent)
						if e.T != nil {
							fmt.Fprintf(&sb, " t=\"%d\"", *e.T)
						}
						fmt.Fprintf(&sb, " d=\"%d\"", e.D)
						if e.R != 0 {
							fmt.Fprintf(&sb, " r=\"%d\"", e.R)
						}
						sb.WriteString("/>\n")
					}
					sb.WriteString(indent + " </SegmentTimeline>\n" + indent + "</SegmentTemplate>\n")
				} else {
					sb.WriteString("/>\n")
				}
			}
			if !as.NoTemplate {
				tmpl("   ")
			}
			for _, r := range as.Reps {
				fmt.Fprintf(&sb, "   <Representation id=\"%s\" bandwidth=\"1000\"", r.ID)
				if r.Codecs != "" {
					fmt.Fprintf(&sb, " codecs=\"%s\"", r.Codecs)
				}
				if r.RepTemplate {
					sb.WriteString(">\n")
					tmpl("    ")
					sb.WriteString("   </Representation>\n")
				} else {
					sb.WriteString("/>\n")
				}
			}
			sb.WriteString("  </AdaptationSet>\n")
		}
		sb.WriteString(" </Period>\n")
	}
	sb.WriteString("</MPD>\n")
	return []byte(sb.String())
}

func replaceIDs(s, id string) string {
	s = strings.ReplaceAll(s, "$RepresentationID$", id)
	s = strings.ReplaceAll(s, "$Bandwidth$", "1000")
	return s
}

// render builds the file tree of a layout. Representations are rendered once (first description).
func (l layout) render() fstest.MapFS {
	fsys := fstest.MapFS{}
	done := map[string]bool{}
	for _, m := range l.MPDs {
		fsys[l.Asset+"/"+m.Name] = &fstest.MapFile{Data: renderMPD(m)}
		for _, as := range m.Sets {
			for _, r := range as.Reps {
				if done[r.ID] {
					continue
				}
				done[r.ID] = true
				if as.ContentType != "image" && !r.NoInit && as.Init != "" {
					fsys[l.Asset+"/"+replaceIDs(as.Init, r.ID)] = &fstest.MapFile{Data: renderInit(r, as.ContentType)}
				}
				dir := ""
				if i := strings.LastIndex(replaceIDs(as.Media, r.ID), "/"); i >= 0 {
					dir = replaceIDs(as.Media, r.ID)[:i+1]
				}
				for k, s := range r.Segs {
					if s.Kind == "missing" {
						continue
					}
					var data []byte
					if as.ContentType == "image" {
						data = []byte{0xff, 0xd8, 0xff, byte(k)}
					} else {
						data = renderSeg(s, uint32(k+1))
					}
					fsys[l.Asset+"/"+dir+s.Name] = &fstest.MapFile{Data: data}
				}
			}
		}
	}
	return fsys
}
