package main

import (
	"fmt"
	"math"
	"math/big"
	"math/rand"
	"strings"

	"github.com/Dash-Industry-Forum/livesim2/cmd/livesim2/app"
	"verifharness/lib"
)

// availIn is the input of one calcSegmentAvailabilityTime case.
type availIn struct {
	Kind    string      `json:"kind"`
	Segs    [][2]uint64 `json:"segs"`
	TS      int         `json:"timescale"`
	LoopMS  int         `json:"loop_ms"`
	StartNr int         `json:"start_nr"`
	StartS  int         `json:"start_s"`
	AtoMS   int         `json:"ato_ms"` // -1: inf
	Nr      uint32      `json:"nr"`
}

func coqSegTable(segs [][2]uint64, ts int) string {
	var sb strings.Builder
	sb.WriteString("{| segs := [")
	for i, s := range segs {
		if i > 0 {
			sb.WriteString("; ")
		}
		fmt.Fprintf(&sb, "{| st := %d; en := %d; snr := %d |}", s[0], s[1], i)
	}
	fmt.Fprintf(&sb, "]; ts := %d |}", ts)
	return sb.String()
}

func coqTcfg(startS, startNr, tsbd, atoMS int64) string {
	ato := "None"
	if atoMS >= 0 {
		ato = fmt.Sprintf("(Some %d)", atoMS)
	}
	return fmt.Sprintf("{| startS := %s; startNr := %s; tsbdS := %d; ato := %s |}", lib.Zs(startS), lib.Zs(startNr), tsbd, ato)
}

// exactCeilMS is the first millisecond at which a segment ending at tick E (of timescale ts, ato in
// ms) is available: ceil((E*1000 - atoMS*ts)/ts), in exact integer arithmetic.
func exactCeilMS(E, ts, atoMS int64) int64 {
	num := new(big.Int).Mul(big.NewInt(E), big.NewInt(1000))
	num.Sub(num, new(big.Int).Mul(big.NewInt(atoMS), big.NewInt(ts)))
	q, m := new(big.Int).DivMod(num, big.NewInt(ts), new(big.Int))
	if m.Sign() != 0 {
		q.Add(q, big.NewInt(1))
	}
	return q.Int64()
}

type segShape struct {
	durs []uint64
	ts   int
}

var availShapes = []segShape{
	{[]uint64{180000, 180000, 180000, 180000}, 90000},            // 2 s
	{[]uint64{60060, 60060, 60060, 60060, 60060}, 30000},         // 2.002 s (29.97)
	{[]uint64{60060}, 30000},                                     // one segment
	{[]uint64{96256, 95232, 96256, 96256}, 48000},                // audio-like
	{[]uint64{2000, 2000, 2000}, 1000},                           //
	{[]uint64{1001, 1001}, 1000},                                 //
	{[]uint64{720000, 720000}, 90000},                            // 8 s
	{[]uint64{24000, 25000, 23000, 24000}, 12800},                // off the ms grid
	{[]uint64{2, 2, 2}, 1},                                       // timescale 1
	{[]uint64{20000000, 20000000}, 10000000},                     // 10 MHz
	{[]uint64{48048, 48048, 48048, 48048, 48048, 48048}, 24000},  // 23.976
	{[]uint64{19200, 19200, 19200, 19200, 19200}, 10000},         // 1.92 s
	{[]uint64{180000, 90000, 270000, 180000}, 90000},             // alternating durations
	{[]uint64{3003, 3003, 3003, 3003, 3003, 3003, 3003}, 1000},   // 3.003
	{[]uint64{180180, 180180, 180180}, 90000},                    // 2.002 at 90 kHz
	{[]uint64{512, 512, 512, 512}, 15360},                        // 1/30 s fragments
	{[]uint64{1, 1, 1}, 3},                                       // thirds of a second
	{[]uint64{1920000, 1920000, 1920000, 1920000}, 1000000},      // 1.92 s in us
	{[]uint64{60060, 60060, 60060, 60060, 60060, 60060, 60060, 60060, 60060, 60060, 60060, 60060, 60060, 60060, 60060}, 30000}, // as the bundled 29.97 asset
}

func mkSegs(durs []uint64) ([][2]uint64, uint64) {
	var out [][2]uint64
	t := uint64(0)
	for _, d := range durs {
		out = append(out, [2]uint64{t, t + d})
		t += d
	}
	return out, t
}

func runAvail(c *lib.Ctx, terms *[]string) error {
	rng := rand.New(rand.NewSource(c.Seed*7919 + 16))
	n := 2400
	if c.Thorough() {
		n = 24000
	}
	atos := []int{0, 0, 0, 500, 1000, 1500, 570, 1, 999, 250, 1001, 7, -1}
	startNrs := []int{0, 0, 0, 1, 5, 17, 1 << 20}
	startSs := []int{0, 0, 0, 1, 1600000000, 86400, 1758000000}
	trunc := 0
	for i := 0; i < n; i++ {
		sh := availShapes[rng.Intn(len(availShapes))]
		if rng.Intn(6) == 0 { // random shape
			k := 1 + rng.Intn(6)
			ts := []int{1000, 90000, 48000, 30000, 44100, 25, 600, 12288}[rng.Intn(8)]
			durs := make([]uint64, k)
			for j := range durs {
				durs[j] = uint64(1 + rng.Intn(4*ts))
			}
			sh = segShape{durs, ts}
		}
		segs, total := mkSegs(sh.durs)
		in := availIn{Kind: "grid", Segs: segs, TS: sh.ts}
		in.LoopMS = int(1000 * total / uint64(sh.ts))
		if rng.Intn(12) == 0 {
			in.LoopMS += rng.Intn(3) - 1
			in.Kind = "loop-off"
		}
		in.StartNr = startNrs[rng.Intn(len(startNrs))]
		in.StartS = startSs[rng.Intn(len(startSs))]
		in.AtoMS = atos[rng.Intn(len(atos))]
		N := len(segs)
		switch rng.Intn(10) {
		case 0: // below the start number: negative index
			if in.StartNr > 0 {
				in.Nr = uint32(rng.Intn(in.StartNr))
				in.Kind = "below-start"
			} else {
				in.Nr = uint32(rng.Intn(3 * N))
			}
		case 1: // top of the uint32 range
			in.Nr = math.MaxUint32 - uint32(rng.Intn(4*N))
			in.Kind = "u32-top"
		case 2: // around a wrap
			w := rng.Intn(2000)
			in.Nr = uint32(in.StartNr + w*N + rng.Intn(3) - 1)
			if int(in.Nr) < in.StartNr {
				in.Nr = uint32(in.StartNr)
			}
			in.Kind = "wrap"
		case 3: // far away (years of wall clock)
			in.Nr = uint32(in.StartNr) + uint32(rng.Intn(900000000))
			in.Kind = "far"
		default:
			in.Nr = uint32(in.StartNr + rng.Intn(40*N))
		}
		id := len(*terms)
		cid := fmt.Sprint(id)
		c.Res.Inputs[cid] = in
		c.Count("avail:" + in.Kind)
		ms, pmsg, early := availOracle(c, cid, in)
		if early {
			trunc++
		}
		obs := fmt.Sprintf("(OAv %s)", lib.Zs(ms))
		if pmsg != "" {
			obs = "OAvPanic"
		}
		*terms = append(*terms, fmt.Sprintf("CAvail %d %s %d %s %d %s", id, coqSegTable(in.Segs, in.TS), in.LoopMS,
			coqTcfg(int64(in.StartS), int64(in.StartNr), 60, int64(in.AtoMS)), in.Nr, obs))
		if i < 2 {
			c.Sample(map[string]any{"avail": in, "ms": ms, "panic": pmsg})
		}
	}
	c.Res.DistinctNontrivial += n
	c.Res.Notes = append(c.Res.Notes, fmt.Sprintf("avail: %d cases, %d with the availability time before the segment is available", n, trunc))
	return nil
}

// availOracle runs calcSegmentAvailabilityTime and judges the result: no panic for a number at or
// above the start number, and never before the first millisecond at which the segment is served.
func availOracle(c *lib.Ctx, cid string, in availIn) (ms int64, pmsg string, early bool) {
	ms, pmsg = app.VerifC16AvailTime(in.Segs, in.TS, in.LoopMS, in.StartNr, in.StartS, in.AtoMS, in.Nr)
	N := len(in.Segs)
	if pmsg != "" {
		c.Count("avail:panic")
		if int64(in.Nr) >= int64(in.StartNr) {
			c.Fail(cid, "panic:calcSegmentAvailabilityTime:"+pmsg, "calcSegmentAvailabilityTime panics for a number that is not below the start number", in)
		}
		return
	}
	if in.AtoMS < 0 {
		return
	}
	nrAfter := int64(in.Nr) - int64(in.StartNr)
	if nrAfter < 0 {
		return
	}
	wraps := nrAfter / int64(N)
	rel := nrAfter % int64(N)
	wrapDur := int64(in.LoopMS) * int64(in.TS) / 1000
	E := int64(in.Segs[rel][1]) + wraps*wrapDur + int64(in.StartS)*int64(in.TS)
	want := exactCeilMS(E, int64(in.TS), int64(in.AtoMS))
	if ms < want {
		early = true
		c.Count("avail:before-available")
		key := "avail:early:" + fmt.Sprint(want-ms) + "ms"
		if ms == want-1 {
			key = "avail:truncated-1ms-early"
		}
		c.Fail(cid, key,
			fmt.Sprintf("calcSegmentAvailabilityTime=%d ms but the segment (end tick %d, timescale %d, ato %d ms) is only available from %d ms", ms, E, in.TS, in.AtoMS, want), in)
	} else if ms > want+1 {
		c.Fail(cid, "avail:late:"+fmt.Sprint(ms-want)+"ms", fmt.Sprintf("calcSegmentAvailabilityTime=%d ms, the segment is available from %d ms", ms, want), in)
	}
	return
}

func replayAvail(c *lib.Ctx, ins []availIn) {
	for i, in := range ins {
		ms, pmsg, _ := availOracle(c, fmt.Sprint(i), in)
		fmt.Printf("calcSegmentAvailabilityTime = %d %s\n", ms, pmsg)
	}
}
