package main

import (
	"bufio"
	"bytes"
	"crypto/sha256"
	"encoding/hex"
	"encoding/json"
	"fmt"
	"io"
	"net/http"
	"net/http/httptest"
	"os"
	"regexp"
	"strconv"
	"strings"
	"sync"
	"time"

	"github.com/Dash-Industry-Forum/livesim2/cmd/livesim2/app"
	"github.com/Eyevinn/mp4ff/mp4"
	"verifharness/lib"
)

// ---------------------------------------------------------------- inputs

type cfgIn struct {
	StartS     int64    `json:"start_s"`
	Snr        int64    `json:"snr"`         // -1: not in the URL
	Tsbd       int64    `json:"tsbd"`        // -1: not in the URL
	AtoMS      int64    `json:"ato_ms"`      // 0: none
	Mode       string   `json:"mode"`        // number | tlt ($Time$) | tlnr (timeline with $Number$)
	ChunkDurMS int64    `json:"chunkdur_ms"` // 0: not chunked
	TimeSubs   []string `json:"timesubs,omitempty"`      // timesubsstpp_<langs>
	TimeSubsW  []string `json:"timesubs_wvtt,omitempty"` // timesubswvtt_<langs>
}

func msStr(ms int64) string { return strconv.FormatFloat(float64(ms)/1000, 'f', -1, 64) }

func (c cfgIn) prefix() string {
	var sb strings.Builder
	if c.StartS != 0 {
		fmt.Fprintf(&sb, "start_%d/", c.StartS)
	}
	if c.Snr >= 0 {
		fmt.Fprintf(&sb, "snr_%d/", c.Snr)
	}
	if c.Tsbd >= 0 {
		fmt.Fprintf(&sb, "tsbd_%d/", c.Tsbd)
	}
	switch c.Mode {
	case "tlt":
		sb.WriteString("segtimeline_1/")
	case "tlnr":
		sb.WriteString("segtimelinenr_1/")
	}
	if c.AtoMS > 0 {
		fmt.Fprintf(&sb, "ato_%s/", msStr(c.AtoMS))
	}
	if c.ChunkDurMS > 0 {
		fmt.Fprintf(&sb, "chunkdur_%s/", msStr(c.ChunkDurMS))
	}
	if len(c.TimeSubs) > 0 {
		fmt.Fprintf(&sb, "timesubsstpp_%s/", strings.Join(c.TimeSubs, ","))
	}
	if len(c.TimeSubsW) > 0 {
		fmt.Fprintf(&sb, "timesubswvtt_%s/", strings.Join(c.TimeSubsW, ","))
	}
	return sb.String()
}

type evIn struct {
	Kind    string   `json:"kind"`             // step | delete | wait
	Refuse  []string `json:"refuse,omitempty"` // representation ids whose media PUT of this event gets a 500
	Early   bool     `json:"early,omitempty"`  // the 500 is sent before the body is read
	SlowRep string   `json:"slow_rep,omitempty"`
	SlowMS  int      `json:"slow_ms,omitempty"`
	WaitMS  int      `json:"wait_ms,omitempty"`
}

type sessIn struct {
	ID         int      `json:"id"`
	Kind       string   `json:"kind"`
	Asset      string   `json:"asset"`
	MPD        string   `json:"mpd"`
	Cfg        cfgIn    `json:"cfg"`
	NowMS      int64    `json:"now_ms"` // testNowMS (step mode)
	Test       bool     `json:"step_mode"`
	Dur        *int     `json:"duration,omitempty"`
	Streams    bool     `json:"streams_urls"`
	User       string   `json:"user,omitempty"`
	Pass       string   `json:"password,omitempty"`
	DestName   string   `json:"dest_name"`
	InitRefuse []string `json:"init_refuse,omitempty"`
	Events     []evIn   `json:"events"`
	Solo       bool     `json:"solo,omitempty"` // run alone in its own process (expected to kill it)
	// the receiver holds back its answer to the init PUT of this representation; DELETE is sent
	// meanwhile, then the receiver answers
	HoldInit string `json:"delete_during_init_of,omitempty"`
	// vodroot of the livesim2 instance (default: the bundled assets); such a session runs alone
	VodRoot string `json:"vodroot,omitempty"`
	// sessions of one group run in the same process and PUT to the same receiver host (one server,
	// told apart by their destination name)
	Group string `json:"group,omitempty"`
	// stop playing step events after this many steps were not taken (0: play all)
	StopAfterRefused int `json:"stop_after_refused,omitempty"`
	// real-time sessions: create at a wall-clock instant this many ms after a multiple of AlignMS
	AlignMS  int64 `json:"align_ms,omitempty"`
	AlignOff int64 `json:"align_off,omitempty"`
}

func (s sessIn) livesimURL() string {
	return fmt.Sprintf("/livesim2/%s%s/%s", s.Cfg.prefix(), s.Asset, s.MPD)
}

// ---------------------------------------------------------------- observations

type putObs struct {
	Arrival  int    `json:"arrival"`
	Event    int    `json:"event"` // -1: before the first event
	Rep      string `json:"rep"`
	Method   string `json:"method"`
	Path     string `json:"path"`
	File     string `json:"file"`
	CT       string `json:"content_type"`
	Ingest   string `json:"dash_if_ingest"`
	Auth     string `json:"authorization"`
	Chunked  bool   `json:"chunked"`
	CL       int64  `json:"content_length"`
	Len      int    `json:"len"`
	Hash     string `json:"sha256"`
	Answered int    `json:"answered"`
	BodyRead bool   `json:"body_read"`
	IsInit   bool   `json:"is_init"`
	SeqNr    int64  `json:"seq_nr"`
	Tfdt     int64  `json:"tfdt"`
	Lmsg     bool   `json:"lmsg"`
	ParseErr string `json:"parse_err,omitempty"`
	PathID   int64  `json:"path_id"` // number or time in the path, -1 if none
	GetURL   string `json:"get_url,omitempty"`
	GetCode  int    `json:"get_status"`
	GetEqual bool   `json:"get_equal"`
	GetNote  string `json:"get_note,omitempty"`
	body     []byte
}

type evOut struct {
	Returned bool     `json:"returned"`
	Status   int      `json:"status"`
	Puts     []putObs `json:"puts"`
}

type sessOut struct {
	ID           int         `json:"id"`
	CreateStatus int         `json:"create_status"`
	CreateBody   string      `json:"create_body,omitempty"`
	IngestID     uint64      `json:"ingest_id"`
	NrSegs       int         `json:"nr_segs"`
	HasNr        bool        `json:"has_nr"`
	Chunked      bool        `json:"chunked"`
	Reps         [][3]string `json:"reps"`
	SegDurMS     int         `json:"seg_dur_ms"`
	LoopMS       int         `json:"loop_ms"`
	RefRep       string      `json:"ref_rep"`
	RealNowMS    int64       `json:"real_now_ms,omitempty"`
	Inits        []putObs    `json:"inits"`
	Events       []evOut     `json:"events"`
	Final        int         `json:"final"`
	Report       []string    `json:"report,omitempty"`
	Timescales   map[string]int64 `json:"timescales,omitempty"`
	Err          string      `json:"err,omitempty"`
}

type childMsg struct {
	Type   string   `json:"type"` // progress | result
	ID     int      `json:"id"`
	Event  int      `json:"event,omitempty"`
	Result *sessOut `json:"result,omitempty"`
}

// ---------------------------------------------------------------- receiver

type receiver struct {
	mu       sync.Mutex
	log      []*putObs
	inflight int
	lastAct  time.Time
	ev       int
	sess     *sessIn
	seenRep  map[string]bool
	slowed   map[int]bool
	held     chan struct{} // closed when the held init PUT has arrived
	release  chan struct{} // closed to let the receiver answer it
}

var streamsRe = regexp.MustCompile(`^Streams\((.+)\.(cmf[vatm])\)$`)
var fileIDRe = regexp.MustCompile(`^(-?\d+)\.`)

func splitPath(p string) (rep, file string) {
	parts := strings.Split(strings.TrimPrefix(p, "/"), "/")
	last := parts[len(parts)-1]
	if m := streamsRe.FindStringSubmatch(last); m != nil {
		return m[1], last
	}
	if len(parts) >= 2 {
		return parts[len(parts)-2], last
	}
	return "", last
}

func (r *receiver) ServeHTTP(w http.ResponseWriter, req *http.Request) {
	rep, file := splitPath(req.URL.Path)
	o := &putObs{Rep: rep, Method: req.Method, Path: req.URL.Path, File: file, CT: req.Header.Get("Content-Type"),
		Ingest: req.Header.Get("DASH-IF-Ingest"), Auth: req.Header.Get("Authorization"), CL: req.ContentLength, PathID: -1}
	for _, te := range req.TransferEncoding {
		if te == "chunked" {
			o.Chunked = true
		}
	}
	if m := fileIDRe.FindStringSubmatch(file); m != nil {
		o.PathID, _ = strconv.ParseInt(m[1], 10, 64)
	}
	r.mu.Lock()
	o.Arrival = len(r.log)
	o.Event = r.ev
	r.log = append(r.log, o)
	r.inflight++
	r.lastAct = time.Now()
	first := !r.seenRep[rep]
	r.seenRep[rep] = true
	ev := r.ev
	r.mu.Unlock()

	status := 200
	early := false
	slow := 0
	if first { // the init segment of this representation
		for _, x := range r.sess.InitRefuse {
			if x == rep {
				status = 500
			}
		}
	} else if ev >= 0 && ev < len(r.sess.Events) {
		e := r.sess.Events[ev]
		for _, x := range e.Refuse {
			if x == rep {
				status = 500
				early = e.Early
			}
		}
		if e.SlowRep == rep {
			r.mu.Lock()
			if !r.slowed[ev] { // only the first PUT of that representation in the event is slow
				r.slowed[ev] = true
				slow = e.SlowMS
			}
			r.mu.Unlock()
		}
	}
	if slow > 0 {
		time.Sleep(time.Duration(slow) * time.Millisecond)
	}
	hold := first && r.sess.HoldInit == rep && r.held != nil
	if !(status != 200 && early) {
		body, _ := io.ReadAll(req.Body)
		o.body = body
		o.BodyRead = true
		o.Len = len(body)
		h := sha256.Sum256(body)
		o.Hash = hex.EncodeToString(h[:])
	}
	if hold {
		close(r.held)
		select {
		case <-r.release:
		case <-time.After(10 * time.Second):
		}
	}
	o.Answered = status
	w.WriteHeader(status)
	r.mu.Lock()
	r.inflight--
	r.lastAct = time.Now()
	r.mu.Unlock()
}

// quiesce waits until want new PUTs (since index from) have been answered, or until nothing has
// happened for quiet after at least minWait; returns the number of log entries.
func (r *receiver) quiesce(from, want int, quiet, max time.Duration) int {
	start := time.Now()
	for {
		r.mu.Lock()
		n, infl, last := len(r.log), r.inflight, r.lastAct
		r.mu.Unlock()
		if infl == 0 && n-from >= want {
			return n
		}
		if infl == 0 && time.Since(start) > quiet && time.Since(last) > quiet {
			return n
		}
		if time.Since(start) > max {
			return n
		}
		time.Sleep(2 * time.Millisecond)
	}
}

// sharedRecv is one receiving server for all sessions of a group: requests go to the receiver
// registered for the first path element (the destination name).
type sharedRecv struct {
	mu     sync.Mutex
	byDest map[string]*receiver
	srv    *httptest.Server
}

func (sh *sharedRecv) ServeHTTP(w http.ResponseWriter, req *http.Request) {
	parts := strings.SplitN(strings.TrimPrefix(req.URL.Path, "/"), "/", 2)
	sh.mu.Lock()
	rc := sh.byDest[parts[0]]
	sh.mu.Unlock()
	if rc == nil {
		w.WriteHeader(404)
		return
	}
	rc.ServeHTTP(w, req)
}

var sharedMu sync.Mutex
var sharedRecvs = map[string]*sharedRecv{}

// ---------------------------------------------------------------- child process

var outMu sync.Mutex

func emit(m childMsg) {
	outMu.Lock()
	defer outMu.Unlock()
	b, _ := json.Marshal(m)
	os.Stdout.Write(append(b, '\n'))
}

func childMain() {
	var batch []sessIn
	data, err := io.ReadAll(bufio.NewReader(os.Stdin))
	if err == nil {
		err = json.Unmarshal(data, &batch)
	}
	if err != nil {
		fmt.Fprintln(os.Stderr, "child: bad input:", err)
		os.Exit(4)
	}
	vodRoot := lib.TestVodRoot
	if len(batch) > 0 && batch[0].VodRoot != "" {
		vodRoot = batch[0].VodRoot
	}
	ls, err := lib.NewLivesim(vodRoot, nil)
	if err != nil {
		fmt.Fprintln(os.Stderr, "child: livesim:", err)
		os.Exit(4)
	}
	// Sessions are created one after the other (the manager's maps are not synchronised; that is
	// C07's subject), then stepped concurrently (map reads only).
	runs := make([]*sessRun, len(batch))
	for i := range batch {
		runs[i] = createSession(ls, &batch[i])
	}
	var wg sync.WaitGroup
	for _, sr := range runs {
		wg.Add(1)
		go func(sr *sessRun) {
			defer wg.Done()
			sr.play(ls)
		}(sr)
	}
	wg.Wait()
	// stop what is still running, one after the other, then report
	for _, sr := range runs {
		sr.finish(ls)
		emit(childMsg{Type: "result", ID: sr.in.ID, Result: sr.out})
	}
}

type sessRun struct {
	in   *sessIn
	out  *sessOut
	rc   *receiver
	srv  *httptest.Server
	nrep int
}

func createSession(ls *lib.Livesim, in *sessIn) *sessRun {
	rc := &receiver{sess: in, ev: -1, seenRep: map[string]bool{}, slowed: map[int]bool{}, lastAct: time.Now()}
	if in.HoldInit != "" {
		rc.held, rc.release = make(chan struct{}), make(chan struct{})
	}
	var srv *httptest.Server
	destRoot := ""
	if in.Group != "" {
		sharedMu.Lock()
		sh := sharedRecvs[in.Group]
		if sh == nil {
			sh = &sharedRecv{byDest: map[string]*receiver{}}
			sh.srv = httptest.NewServer(sh)
			sharedRecvs[in.Group] = sh
		}
		sharedMu.Unlock()
		sh.mu.Lock()
		sh.byDest[in.DestName] = rc
		sh.mu.Unlock()
		destRoot = sh.srv.URL
	} else {
		srv = httptest.NewServer(rc)
		destRoot = srv.URL
	}
	sr := &sessRun{in: in, out: &sessOut{ID: in.ID}, rc: rc, srv: srv}
	setup := map[string]any{"destRoot": destRoot, "destName": in.DestName, "livesimURL": in.livesimURL(), "streamsURLs": in.Streams}
	if in.User != "" {
		setup["user"] = in.User
	}
	if in.Pass != "" {
		setup["password"] = in.Pass
	}
	if in.Test {
		setup["testNowMS"] = in.NowMS
	}
	if in.Dur != nil {
		setup["duration"] = *in.Dur
	}
	if !in.Test && in.AlignMS > 0 {
		// wait for a wall-clock instant well inside a segment interval
		for {
			now := time.Now().UnixMilli()
			off := now % in.AlignMS
			if off >= in.AlignOff && off < in.AlignOff+150 {
				break
			}
			time.Sleep(5 * time.Millisecond)
		}
	}
	emit(childMsg{Type: "progress", ID: in.ID, Event: -1})
	sr.out.RealNowMS = time.Now().UnixMilli()
	b, _ := json.Marshal(setup)
	resp := ls.Do("POST", "/api/cmaf-ingests", bytes.NewReader(b), map[string]string{"Content-Type": "application/json"})
	sr.out.CreateStatus = resp.Status
	if resp.Status != 201 {
		sr.out.CreateBody = string(resp.Body)
		return sr
	}
	var cr struct {
		ID string `json:"id"`
	}
	_ = json.Unmarshal(resp.Body, &cr)
	sr.out.IngestID, _ = strconv.ParseUint(cr.ID, 10, 64)
	nr, has, chunked, reps, segDur, loopMS, ref, ok := app.VerifC16SessionInfo(ls.Srv, sr.out.IngestID)
	if !ok {
		sr.out.Err = "session not found after creation"
		return sr
	}
	sr.out.NrSegs, sr.out.HasNr, sr.out.Chunked, sr.out.Reps, sr.out.SegDurMS, sr.out.LoopMS, sr.out.RefRep = nr, has, chunked, reps, segDur, loopMS, ref
	sr.nrep = len(reps)
	if in.HoldInit != "" {
		// DELETE while the receiver sits on the init PUT; then the receiver answers
		select {
		case <-rc.held:
			r := ls.Do("DELETE", sr.apiPath(""), nil, nil)
			if r.Status != 200 {
				sr.out.Err = fmt.Sprintf("DELETE during the init upload answered %d", r.Status)
			}
			time.Sleep(30 * time.Millisecond)
		case <-time.After(5 * time.Second):
			sr.out.Err = "the init PUT to hold never arrived"
		}
		close(rc.release)
		// give a session that was not stopped the time to finish its init round
		sr.rc.quiesce(0, sr.nrep, 400*time.Millisecond, 3*time.Second)
		deadline := time.Now().Add(1500 * time.Millisecond)
		for time.Now().Before(deadline) {
			st, _ := app.VerifC16IngesterState(ls.Srv, sr.out.IngestID)
			if st != 0 {
				break
			}
			time.Sleep(2 * time.Millisecond)
		}
		return sr
	}
	// the init phase: one PUT per representation, then the session is running or stopped
	sr.rc.quiesce(0, sr.nrep, 300*time.Millisecond, 5*time.Second)
	deadline := time.Now().Add(3 * time.Second)
	for time.Now().Before(deadline) {
		st, _ := app.VerifC16IngesterState(ls.Srv, sr.out.IngestID)
		if st != 0 {
			break
		}
		time.Sleep(2 * time.Millisecond)
	}
	return sr
}

func (sr *sessRun) apiPath(suffix string) string {
	return fmt.Sprintf("/api/cmaf-ingests/%d%s", sr.out.IngestID, suffix)
}

func (sr *sessRun) play(ls *lib.Livesim) {
	if sr.out.CreateStatus != 201 || sr.out.Err != "" {
		return
	}
	in := sr.in
	stepTimeout := 2500 * time.Millisecond
	// A step is complete when every representation got its PUT; only when fewer arrive the harness
	// waits for quiet (long enough for a loaded machine: a late PUT would be booked on the next step).
	quiet := 4 * time.Second
	maxWait := 12 * time.Second
	if sr.out.Chunked {
		stepTimeout = time.Duration(in.Cfg.AtoMS+3500) * time.Millisecond
		quiet = time.Duration(in.Cfg.AtoMS+4000) * time.Millisecond
		maxWait = time.Duration(in.Cfg.AtoMS+12000) * time.Millisecond
	}
	sr.rc.mu.Lock()
	from := len(sr.rc.log)
	sr.rc.mu.Unlock()
	refused := 0
	for k, e := range in.Events {
		if in.StopAfterRefused > 0 && refused >= in.StopAfterRefused && e.Kind == "step" {
			break // the remaining steps would each wait for the 2 s step time-out of the server
		}
		emit(childMsg{Type: "progress", ID: in.ID, Event: k})
		sr.rc.mu.Lock()
		sr.rc.ev = k
		sr.rc.mu.Unlock()
		eo := evOut{}
		switch e.Kind {
		case "step":
			done := make(chan lib.Resp, 1)
			go func() { done <- ls.Do("GET", sr.apiPath("/step"), nil, nil) }()
			select {
			case r := <-done:
				// 200: the session took the step; 410 (since fix 2d98cef): it did not within 2 s
				eo.Returned, eo.Status = r.Status == 200, r.Status
				if r.Status != 200 {
					refused++
					break
				}
				q, mw := quiet, maxWait
				if e.SlowMS > 0 {
					q += time.Duration(e.SlowMS) * time.Millisecond
					mw += time.Duration(e.SlowMS) * time.Millisecond
				}
				sr.rc.quiesce(from, sr.nrep, q, mw)
			case <-time.After(stepTimeout):
				eo.Returned = false
				refused++
			}
		case "delete":
			r := ls.Do("DELETE", sr.apiPath(""), nil, nil)
			eo.Returned, eo.Status = true, r.Status
			deadline := time.Now().Add(1500 * time.Millisecond)
			for time.Now().Before(deadline) {
				st, _ := app.VerifC16IngesterState(ls.Srv, sr.out.IngestID)
				if st == 2 {
					break
				}
				time.Sleep(2 * time.Millisecond)
			}
			sr.rc.quiesce(from, 0, 50*time.Millisecond, time.Second)
		case "wait":
			time.Sleep(time.Duration(e.WaitMS) * time.Millisecond)
			eo.Returned = true
			sr.rc.quiesce(from, 0, 100*time.Millisecond, 3*time.Second)
		}
		sr.rc.mu.Lock()
		n := len(sr.rc.log)
		sr.rc.mu.Unlock()
		eo.Puts = make([]putObs, 0, n-from)
		from = n
		sr.out.Events = append(sr.out.Events, eo)
	}
	// the session goroutine marks itself stopped a moment after its last upload returned
	st, rep := app.VerifC16IngesterState(ls.Srv, sr.out.IngestID)
	for deadline := time.Now().Add(400 * time.Millisecond); st == 1 && time.Now().Before(deadline); {
		time.Sleep(5 * time.Millisecond)
		st, rep = app.VerifC16IngesterState(ls.Srv, sr.out.IngestID)
	}
	sr.out.Final, sr.out.Report = st, rep
}

// finish stops the session if it still runs, analyses the received bodies and compares each with
// a GET of the same segment from the same livesim2 instance.
func (sr *sessRun) finish(ls *lib.Livesim) {
	if sr.srv != nil {
		defer sr.srv.Close()
	}
	if sr.out.CreateStatus != 201 || sr.out.Err != "" {
		return
	}
	sr.rc.mu.Lock()
	sr.rc.ev = len(sr.in.Events) + 1
	sr.rc.mu.Unlock()
	if st, _ := app.VerifC16IngesterState(ls.Srv, sr.out.IngestID); st != 2 {
		ls.Do("DELETE", sr.apiPath(""), nil, nil)
		time.Sleep(20 * time.Millisecond)
	}
	sr.rc.mu.Lock()
	log := make([]*putObs, len(sr.rc.log))
	copy(log, sr.rc.log)
	sr.rc.mu.Unlock()
	in := sr.in
	timescales := map[string]int64{}
	for _, o := range log {
		if o.Event > len(in.Events) {
			continue // arrived during the clean-up
		}
		sr.analyse(ls, o, timescales)
		switch {
		case o.Event < 0:
			sr.out.Inits = append(sr.out.Inits, *o)
		case o.Event < len(sr.out.Events):
			sr.out.Events[o.Event].Puts = append(sr.out.Events[o.Event].Puts, *o)
		}
	}
	sr.out.Timescales = timescales
}

func removeLmsg(b []byte) ([]byte, bool) {
	if len(b) < 16 || string(b[4:8]) != "styp" {
		return b, false
	}
	size := int(b[0])<<24 | int(b[1])<<16 | int(b[2])<<8 | int(b[3])
	if size > len(b) || size < 16 {
		return b, false
	}
	for p := 16; p+4 <= size; p += 4 {
		if string(b[p:p+4]) == "lmsg" {
			out := make([]byte, 0, len(b)-4)
			ns := size - 4
			out = append(out, byte(ns>>24), byte(ns>>16), byte(ns>>8), byte(ns))
			out = append(out, b[4:p]...)
			out = append(out, b[p+4:]...)
			return out, true
		}
	}
	return b, false
}

func (sr *sessRun) analyse(ls *lib.Livesim, o *putObs, timescales map[string]int64) {
	if !o.BodyRead {
		return
	}
	body := o.body
	o.body = nil
	f, err := mp4.DecodeFile(bytes.NewReader(body))
	if err != nil {
		o.ParseErr = err.Error()
		return
	}
	in := sr.in
	base := fmt.Sprintf("/livesim2/%s%s/%s/", in.Cfg.prefix(), in.Asset, o.Rep)
	if f.Init != nil && f.Init.Moov != nil {
		o.IsInit = true
		ts := int64(f.Init.Moov.Trak.Mdia.Mdhd.Timescale)
		timescales[o.Rep] = ts
		o.GetURL = base + "init.mp4"
		g := ls.Get(o.GetURL)
		o.GetCode = g.Status
		if g.Status == 200 {
			gf, err := mp4.DecodeFile(bytes.NewReader(g.Body))
			switch {
			case err != nil || gf.Init == nil:
				o.GetNote = "served init does not parse"
			case int64(gf.Init.Moov.Trak.Mdia.Mdhd.Timescale) != ts:
				o.GetNote = "timescale differs from the served init"
			case gf.Init.Moov.Trak.Mdia.Hdlr.HandlerType != f.Init.Moov.Trak.Mdia.Hdlr.HandlerType:
				o.GetNote = "handler differs from the served init"
			case len(gf.Init.Moov.Trak.Mdia.Minf.Stbl.Stsd.Children) == 0 || len(f.Init.Moov.Trak.Mdia.Minf.Stbl.Stsd.Children) == 0 ||
				gf.Init.Moov.Trak.Mdia.Minf.Stbl.Stsd.Children[0].Type() != f.Init.Moov.Trak.Mdia.Minf.Stbl.Stsd.Children[0].Type():
				o.GetNote = "sample entry differs from the served init"
			default:
				o.GetEqual = true
			}
		}
		return
	}
	if len(f.Segments) == 0 || len(f.Segments[0].Fragments) == 0 {
		o.ParseErr = "neither init nor media segment"
		return
	}
	fr := f.Segments[0].Fragments[0]
	o.SeqNr = int64(fr.Moof.Mfhd.SequenceNumber)
	o.Tfdt = int64(fr.Moof.Traf.Tfdt.BaseMediaDecodeTime())
	cmp := body
	if nb, had := removeLmsg(body); had {
		o.Lmsg = true
		cmp = nb
	}
	id := o.PathID
	if id < 0 {
		if in.Cfg.Mode == "tlt" {
			id = o.Tfdt
		} else {
			id = o.SeqNr
		}
	}
	ts := timescales[o.Rep]
	if ts == 0 {
		o.GetNote = "no init seen for this representation"
		return
	}
	nowMS := o.Tfdt*1000/ts + in.Cfg.StartS*1000 + 20000
	o.GetURL = fmt.Sprintf("%s%d.m4s?nowMS=%d", base, id, nowMS)
	g := ls.Get(o.GetURL)
	o.GetCode = g.Status
	if g.Status == 200 {
		o.GetEqual = bytes.Equal(g.Body, cmp)
		if !o.GetEqual {
			o.GetNote = fmt.Sprintf("PUT body %d bytes, GET body %d bytes", len(cmp), len(g.Body))
		}
	}
}
