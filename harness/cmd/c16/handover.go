package main

import (
	"bytes"
	"fmt"
	"io"
	"math/rand"
	"time"

	"github.com/Dash-Industry-Forum/livesim2/cmd/livesim2/app"
	"verifharness/lib"
)

// handIn is one run of the cmafSource hand-over.
type handIn struct {
	Kind     string `json:"kind"`
	Cap      int    `json:"buf_cap"` // 0: the real 64 KiB buffer of newCmafSource
	Writes   []int  `json:"writes"`  // lengths of the successive Write calls; byte i of the stream is i mod 251
	PSizes   []int  `json:"read_sizes"`
	PDefault int    `json:"read_default"`
}

type handObs struct {
	Rets     []int
	Got      []byte
	Deadlock string
	WriteRet []int
}

func handStream(writes []int) [][]byte {
	out := make([][]byte, len(writes))
	pos := 0
	for i, n := range writes {
		b := make([]byte, n)
		for j := range b {
			b[j] = byte((pos + j) % 251)
		}
		pos += n
		out[i] = b
	}
	return out
}

// playHandover runs the real Write/Read pair: the reader goroutine does what
// startReadAndSendChunked and the HTTP transport do (kick, then Read until EOF), the writer does
// what writeSegment and the tail of sendMediaSegment do.
func playHandover(in handIn) handObs {
	src := app.VerifC16NewSource(in.Cap)
	var obs handObs
	readerDone := make(chan struct{})
	writerDone := make(chan struct{})
	var rets []int
	var got []byte
	go func() {
		defer close(readerDone)
		src.WriteMoreCh() <- struct{}{} // startReadAndSendChunked: get the writer going
		for k := 0; ; k++ {
			sz := in.PDefault
			if k < len(in.PSizes) {
				sz = in.PSizes[k]
			}
			p := make([]byte, sz)
			n, err := src.Read(p)
			if err == io.EOF {
				rets = append(rets, -1)
				return
			}
			rets = append(rets, n)
			got = append(got, p[:n]...)
			if len(rets) > 4000000 {
				return
			}
		}
	}()
	var wrets []int
	go func() {
		defer close(writerDone)
		for _, b := range handStream(in.Writes) {
			n, _ := src.Write(b)
			wrets = append(wrets, n)
		}
		<-src.WriteMoreCh()   // sendMediaSegment: capture final message
		src.NrBytesCh() <- -1 // signal the end to Read
	}()
	timeout := time.After(5 * time.Second)
	select {
	case <-writerDone:
	case <-timeout:
		obs.Deadlock = "writer blocked"
		return obs
	}
	select {
	case <-readerDone:
	case <-timeout:
		obs.Deadlock = "reader blocked"
		return obs
	}
	obs.Rets, obs.Got, obs.WriteRet = rets, got, wrets
	return obs
}

func runHandover(c *lib.Ctx, terms *[]string) error {
	rng := rand.New(rand.NewSource(c.Seed*104729 + 16))
	n := 1500
	big := 3
	if c.Thorough() {
		n = 15000
		big = 18
	}
	caps := []int{1, 2, 3, 4, 5, 8, 13, 16, 64}
	deadlocks := 0
	for i := 0; i < n+big; i++ {
		var in handIn
		if i < n {
			in.Cap = caps[rng.Intn(len(caps))]
			in.Kind = "small-buffer"
			nw := rng.Intn(6)
			for j := 0; j < nw; j++ {
				var l int
				switch rng.Intn(8) {
				case 0:
					l = 0
				case 1:
					l = in.Cap // exactly one buffer
				case 2:
					l = in.Cap * (1 + rng.Intn(3)) // whole buffers
				case 3:
					l = in.Cap + 1
				default:
					l = rng.Intn(4*in.Cap + 3)
				}
				in.Writes = append(in.Writes, l)
			}
			nr := rng.Intn(12)
			for j := 0; j < nr; j++ {
				var s int
				switch rng.Intn(5) {
				case 0:
					s = 1
				case 1:
					s = in.Cap
				case 2:
					s = in.Cap + 1 + rng.Intn(3)
				default:
					s = 1 + rng.Intn(2*in.Cap+2)
				}
				in.PSizes = append(in.PSizes, s)
			}
			in.PDefault = 1 + rng.Intn(2*in.Cap+1)
			if nw == 0 {
				in.Kind = "no-write"
			}
		} else {
			// the real 64 KiB buffer, with writes around its size
			in.Cap = 0
			in.Kind = "64KiB-buffer"
			sizes := []int{65536, 65535, 65537, 131072, 1000, 0, 70000}
			nw := 1 + rng.Intn(2)
			for j := 0; j < nw; j++ {
				in.Writes = append(in.Writes, sizes[(i-n+j*3+rng.Intn(2))%len(sizes)])
			}
			in.PDefault = []int{32768, 65536, 100000, 16384}[rng.Intn(4)]
			in.PSizes = []int{1 + rng.Intn(70000)}
		}
		obs := playHandover(in)
		id := len(*terms)
		cid := fmt.Sprint(id)
		c.Res.Inputs[cid] = in
		c.Count("handover:" + in.Kind)
		want := bytes.Join(handStream(in.Writes), nil)
		if obs.Deadlock != "" {
			c.Fail(cid, "handover:deadlock", obs.Deadlock, in)
			deadlocks++
			if deadlocks >= 3 {
				c.Res.Notes = append(c.Res.Notes, "hand-over: three runs blocked, remaining hand-over cases skipped")
				break
			}
			continue
		}
		equal := bytes.Equal(obs.Got, want)
		if !equal {
			c.Fail(cid, "handover:bytes", fmt.Sprintf("bytes read (%d) differ from bytes written (%d)", len(obs.Got), len(want)), in)
		}
		// EOF exactly once, as the last return value, and never a 0-byte read while data is pending
		for k, r := range obs.Rets {
			if r == -1 && k != len(obs.Rets)-1 {
				c.Fail(cid, "handover:eof-position", "EOF before the end", in)
			}
		}
		if len(obs.Rets) == 0 || obs.Rets[len(obs.Rets)-1] != -1 {
			c.Fail(cid, "handover:eof-position", "no EOF at the end", in)
		}
		for k, wr := range obs.WriteRet {
			if wr != in.Writes[k] {
				c.Fail(cid, "handover:write-return", fmt.Sprintf("Write %d returned %d for %d bytes", k, wr, in.Writes[k]), in)
			}
		}
		capZ := in.Cap
		if capZ == 0 {
			capZ = 65536
		}
		*terms = append(*terms, fmt.Sprintf("CHand %d {| h_cap := %d; h_writes := %s; h_psizes := %s; h_pdefault := %d; oh_rets := %s; oh_len := %d; oh_equal := %s |}",
			id, capZ, lib.ZlistInt(in.Writes), lib.ZlistInt(in.PSizes), in.PDefault, lib.ZlistInt(obs.Rets), len(obs.Got), lib.Cbool(equal)))
		if i < 2 {
			c.Sample(map[string]any{"handover": in, "read_returns": obs.Rets})
		}
	}
	c.Res.DistinctNontrivial += n + big
	return nil
}
