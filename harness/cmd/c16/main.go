// C16: the CMAF-ingest sender emits a complete, ordered and faithful stream.
//
// L1: ingest sessions are created, stepped and deleted through the REST API of an in-process
// livesim2 (built from /repo's current tree) that PUTs to a scripted receiving HTTP server; every
// received body is compared with a GET of the same segment from the same livesim2 instance.
// Sessions run in child processes (this binary with -child), because several defects of the
// sender end in a goroutine panic that takes the whole process down.
// L2 (hook file verif_hooks_c16.go): calcSegmentAvailabilityTime on synthetic segment tables and
// the cmafSource Write/Read hand-over with arbitrary write splits, read sizes and buffer sizes.
package main

import (
	"fmt"
	"os"
	"regexp"
	"strings"

	"github.com/Dash-Industry-Forum/livesim2/cmd/livesim2/app"
	"verifharness/lib"
)

// variant is what the behavioural probes found out about the tree under test. The defaults are the
// behaviour of the current code; an inconclusive probe keeps the default and says so.
var variant = struct {
	rounding, roundingHow string
	firstFix, firstHow    string
	catchup, catchupHow   string
}{"RCeil", "not probed", "true", "not probed", "true", "not probed"}

// probeRounding asks calcSegmentAvailabilityTime for a value where truncation and rounding up differ:
// one 2.002 s segment at timescale 30000 (60060/30000*1000 = 2001.9999999999998 in float64).
func probeRounding() {
	ms, pmsg := app.VerifC16AvailTime([][2]uint64{{0, 60060}}, 30000, 2002, 0, 0, 0, 0)
	switch {
	case pmsg != "":
		variant.roundingHow = "probe panicked (" + pmsg + "), default kept"
	case ms == 2002:
		variant.rounding, variant.roundingHow = "RCeil", "60060/30000 s -> 2002 ms"
	case ms == 2001:
		variant.rounding, variant.roundingHow = "RTrunc", "60060/30000 s -> 2001 ms"
	default:
		variant.roundingHow = fmt.Sprintf("60060/30000 s -> %d ms: neither variant, default kept", ms)
	}
}

func main() {
	if len(os.Args) > 1 && os.Args[1] == "-child" {
		childMain()
		return
	}
	lib.Main("C16", run)
}

func run(c *lib.Ctx) error {
	if c.Replay != "" {
		return replay(c)
	}
	c.Res.Rule = "oracle: per receiver endpoint init first, then consecutive ids from the live edge+1 without gap/duplicate, " +
		"one PUT per representation per step, body == GET of the same segment (modulo lmsg on the last), extension/content type/" +
		"DASH-IF-Ingest/credentials as configured, duration => floor(dur*1000/segDurMS)+1 segments with only the last marked lmsg, " +
		"DELETE stops; correspondence: availability time (float model), whole sessions (inits, PUTs per event, API call returns, final state), " +
		"hand-over (Read return values, bytes)"
	var terms []string
	probeRounding()
	if err := runAvail(c, &terms); err != nil {
		return err
	}
	if err := runHandover(c, &terms); err != nil {
		return err
	}
	if err := runSessions(c, &terms); err != nil {
		return err
	}
	writeCases(c, terms)
	c.Res.Evaluations = len(terms)
	// distinct cases: the case terms without their running id (input and observed outcome)
	seen := map[string]bool{}
	for _, t := range terms {
		seen[caseIDRe.ReplaceAllString(t, "$1 ")] = true
	}
	c.Res.DistinctNontrivial = len(seen)
	c.Res.Notes = append(c.Res.Notes, fmt.Sprintf("cases: %d (%d distinct)", len(terms), len(seen)))
	return nil
}

// writeCases shards the cases by kind (the hand-over runs over the real 64 KiB buffer are the
// slowest to evaluate and get a file of their own).
var caseIDRe = regexp.MustCompile(`^(\w+) \d+ `)

func writeCases(c *lib.Ctx, terms []string) {
	// Which variant of the model the tree under test is compared with is decided by behaviour
	// (probes below), never by the shape of the source.
	rounding, firstFix, catchup := variant.rounding, variant.firstFix, variant.catchup
	c.Res.Notes = append(c.Res.Notes, "model variant chosen by behavioural probes: rounding "+rounding+" ("+variant.roundingHow+"); first number "+firstFix+" ("+variant.firstHow+"); catch-up loop "+catchup+" ("+variant.catchupHow+")")
	groups := map[string][]string{}
	order := []string{"avail", "hand", "handbig", "sess"}
	per := map[string]int{"avail": 400, "hand": 400, "handbig": 3, "sess": 45}
	for _, t := range terms {
		k := "avail"
		switch {
		case strings.HasPrefix(t, "CSess"):
			k = "sess"
		case strings.HasPrefix(t, "CHand") && strings.Contains(t, "h_cap := 65536"):
			k = "handbig"
		case strings.HasPrefix(t, "CHand"):
			k = "hand"
		}
		groups[k] = append(groups[k], t)
	}
	n := 0
	for _, k := range order {
		g := groups[k]
		for i := 0; i < len(g); i += per[k] {
			j := i + per[k]
			if j > len(g) {
				j = len(g)
			}
			defs := fmt.Sprintf("Definition mismatches := mismatches_r %s %s %s.\nDefinition model_view := model_view_r %s %s %s.\n", rounding, catchup, firstFix, rounding, catchup, firstFix)
			content := lib.CasesFile("From Verif Require Import GoSem Timeline Ingest CorrC16.\n", "c16case", defs, g[i:j], "model_view")
			c.WriteCases(fmt.Sprintf("cases_C16_%d.v", n), content)
			n++
		}
	}
}
