// C16: the CMAF-ingest sender emits a complete, ordered and faithful stream.
//
// L1: ingest sessions are created, stepped and deleted through the REST API of an in-process
// livesim2 (built from /repo's current tree) that PUTs to a scripted receiving HTTP server; every
// received body is compared with a GET of the same segment from the same livesim2 instance.
// Sessions run in child processes (this binary with -child), because several defects of the
// sender end in a goroutine panic that takes the whole process down.
// L2 (hook file verif_hooks_c16.go): calcSegmentAvailabilityTime on synthetic segment tables and
// the cmafSource Write/Read hand-over with arbitrary write splits, read sizes and buffer sizes.
package main

import (
	"fmt"
	"go/ast"
	"go/parser"
	"go/token"
	"os"
	"path/filepath"
	"regexp"
	"strings"

	"github.com/Dash-Industry-Forum/livesim2/cmd/livesim2/app"
	"verifharness/lib"
)

func main() {
	if len(os.Args) > 1 && os.Args[1] == "-child" {
		childMain()
		return
	}
	lib.Main("C16", run)
}

func run(c *lib.Ctx) error {
	if c.Replay != "" {
		return replay(c)
	}
	c.Res.Rule = "oracle: per receiver endpoint init first, then consecutive ids from the live edge+1 without gap/duplicate, " +
		"one PUT per representation per step, body == GET of the same segment (modulo lmsg on the last), extension/content type/" +
		"DASH-IF-Ingest/credentials as configured, duration => floor(dur*1000/segDurMS)+1 segments with only the last marked lmsg, " +
		"DELETE stops; correspondence: availability time (float model), whole sessions (inits, PUTs per event, API call returns, final state), " +
		"hand-over (Read return values, bytes)"
	var terms []string
	if err := runAvail(c, &terms); err != nil {
		return err
	}
	if err := runHandover(c, &terms); err != nil {
		return err
	}
	if err := runSessions(c, &terms); err != nil {
		return err
	}
	writeCases(c, terms)
	c.Res.Evaluations = len(terms)
	// distinct cases: the case terms without their running id (input and observed outcome)
	seen := map[string]bool{}
	for _, t := range terms {
		seen[caseIDRe.ReplaceAllString(t, "$1 ")] = true
	}
	c.Res.DistinctNontrivial = len(seen)
	c.Res.Notes = append(c.Res.Notes, fmt.Sprintf("cases: %d (%d distinct)", len(terms), len(seen)))
	return nil
}

// writeCases shards the cases by kind (the hand-over runs over the real 64 KiB buffer are the
// slowest to evaluate and get a file of their own).
var caseIDRe = regexp.MustCompile(`^(\w+) \d+ `)

func writeCases(c *lib.Ctx, terms []string) {
	rounding, how := detectRounding()
	c.Res.Notes = append(c.Res.Notes, "calcSegmentAvailabilityTime rounding read from the source: "+rounding+" ("+how+")")
	firstFix, how3 := detectFirstFix()
	c.Res.Notes = append(c.Res.Notes, "first number honours the start number, read from the source: "+firstFix+" ("+how3+")")
	catchup, how2 := detectCatchup()
	c.Res.Notes = append(c.Res.Notes, "catch-up loop looks at lastSegNrToSend, read from the source: "+catchup+" ("+how2+")")
	groups := map[string][]string{}
	order := []string{"avail", "hand", "handbig", "sess"}
	per := map[string]int{"avail": 400, "hand": 400, "handbig": 3, "sess": 45}
	for _, t := range terms {
		k := "avail"
		switch {
		case strings.HasPrefix(t, "CSess"):
			k = "sess"
		case strings.HasPrefix(t, "CHand") && strings.Contains(t, "h_cap := 65536"):
			k = "handbig"
		case strings.HasPrefix(t, "CHand"):
			k = "hand"
		}
		groups[k] = append(groups[k], t)
	}
	n := 0
	for _, k := range order {
		g := groups[k]
		for i := 0; i < len(g); i += per[k] {
			j := i + per[k]
			if j > len(g) {
				j = len(g)
			}
			defs := fmt.Sprintf("Definition mismatches := mismatches_r %s %s %s.\nDefinition model_view := model_view_r %s %s %s.\n", rounding, catchup, firstFix, rounding, catchup, firstFix)
			content := lib.CasesFile("From Verif Require Import GoSem Timeline Ingest CorrC16.\n", "c16case", defs, g[i:j], "model_view")
			c.WriteCases(fmt.Sprintf("cases_C16_%d.v", n), content)
			n++
		}
	}
}

// detectRounding reads calcSegmentAvailabilityTime in the tree the harness was built from and says
// how the float milliseconds become an integer: int64(x) -> RTrunc, int64(math.Ceil(x)) -> RCeil.
// Anything else is reported as RTrunc (the pinned code) and shows up as a correspondence mismatch.
func detectRounding() (string, string) {
	dir := app.VerifC16SourceDir()
	fset := token.NewFileSet()
	f, err := parser.ParseFile(fset, filepath.Join(dir, "livesegment.go"), nil, 0)
	if err != nil {
		return "RTrunc", "source not readable: " + err.Error()
	}
	found := "RTrunc"
	how := "function not found"
	ast.Inspect(f, func(n ast.Node) bool {
		fd, ok := n.(*ast.FuncDecl)
		if !ok || fd.Name.Name != "calcSegmentAvailabilityTime" || fd.Body == nil {
			return true
		}
		how = "no int64(...) conversion assigned to milliSeconds"
		ast.Inspect(fd.Body, func(m ast.Node) bool {
			as, ok := m.(*ast.AssignStmt)
			if !ok || len(as.Lhs) != 1 || len(as.Rhs) != 1 {
				return true
			}
			if id, ok := as.Lhs[0].(*ast.Ident); !ok || id.Name != "milliSeconds" {
				return true
			}
			call, ok := as.Rhs[0].(*ast.CallExpr)
			if !ok || len(call.Args) != 1 {
				return true
			}
			if id, ok := call.Fun.(*ast.Ident); !ok || id.Name != "int64" {
				return true
			}
			how = "int64(x)"
			if inner, ok := call.Args[0].(*ast.CallExpr); ok {
				if sel, ok := inner.Fun.(*ast.SelectorExpr); ok {
					if pk, ok := sel.X.(*ast.Ident); ok && pk.Name == "math" && sel.Sel.Name == "Ceil" {
						found, how = "RCeil", "int64(math.Ceil(x))"
					} else {
						how = "int64(" + sel.Sel.Name + "(x)): not modelled"
					}
				}
			}
			return true
		})
		return false
	})
	return found, how
}

// detectCatchup reads cmafIngester.start in the tree the harness was built from: does the catch-up
// loop ("for deltaTime <= 0") pass the literal false as isLast to sendMediaSegments (the pinned
// code: the duration is ignored while catching up) or an expression (the proposed repair)?
func detectCatchup() (string, string) {
	dir := app.VerifC16SourceDir()
	fset := token.NewFileSet()
	f, err := parser.ParseFile(fset, filepath.Join(dir, "cmaf-ingester.go"), nil, 0)
	if err != nil {
		return "false", "source not readable: " + err.Error()
	}
	found, how := "false", "catch-up loop not found"
	ast.Inspect(f, func(n ast.Node) bool {
		fd, ok := n.(*ast.FuncDecl)
		if !ok || fd.Name.Name != "start" || fd.Body == nil {
			return true
		}
		ast.Inspect(fd.Body, func(m ast.Node) bool {
			fs, ok := m.(*ast.ForStmt)
			if !ok || fs.Cond == nil {
				return true
			}
			be, ok := fs.Cond.(*ast.BinaryExpr)
			if !ok {
				return true
			}
			if id, ok := be.X.(*ast.Ident); !ok || id.Name != "deltaTime" {
				return true
			}
			how = "no call of sendMediaSegments in the catch-up loop"
			ast.Inspect(fs.Body, func(k ast.Node) bool {
				call, ok := k.(*ast.CallExpr)
				if !ok || len(call.Args) != 4 {
					return true
				}
				sel, ok := call.Fun.(*ast.SelectorExpr)
				if !ok || sel.Sel.Name != "sendMediaSegments" {
					return true
				}
				if id, ok := call.Args[3].(*ast.Ident); ok && id.Name == "false" {
					found, how = "false", "isLast is the literal false"
				} else {
					found, how = "true", "isLast is computed from lastSegNrToSend"
				}
				return true
			})
			return true
		})
		return false
	})
	return found, how
}

// detectFirstFix reads cmafIngester.start: does it use the start number (a call of getStartNr) when
// it chooses the first segment number (proposed_fixes/C16-first-number.diff) or not (the pinned code)?
func detectFirstFix() (string, string) {
	dir := app.VerifC16SourceDir()
	fset := token.NewFileSet()
	f, err := parser.ParseFile(fset, filepath.Join(dir, "cmaf-ingester.go"), nil, 0)
	if err != nil {
		return "false", "source not readable: " + err.Error()
	}
	found, how := "false", "start does not call getStartNr"
	ast.Inspect(f, func(n ast.Node) bool {
		fd, ok := n.(*ast.FuncDecl)
		if !ok || fd.Name.Name != "start" || fd.Body == nil {
			return true
		}
		ast.Inspect(fd.Body, func(m ast.Node) bool {
			if sel, ok := m.(*ast.SelectorExpr); ok && sel.Sel.Name == "getStartNr" {
				found, how = "true", "start adds getStartNr() to the first number"
			}
			return true
		})
		return false
	})
	return found, how
}
