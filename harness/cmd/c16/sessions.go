package main

import (
	"bufio"
	"bytes"
	"encoding/base64"
	"encoding/json"
	"fmt"
	"math/rand"
	"os"
	"os/exec"
	"path/filepath"
	"sort"
	"strings"
	"sync"
	"time"

	"verifharness/lib"
)

// ---------------------------------------------------------------- running children

type childRes struct {
	results  map[int]*sessOut
	progress map[int]int // last event started per session (-1: creation, -2: nothing)
	died     bool
	stderr   string
}

func runChild(batch []sessIn, timeout time.Duration) childRes {
	res := childRes{results: map[int]*sessOut{}, progress: map[int]int{}}
	for _, s := range batch {
		res.progress[s.ID] = -2
	}
	exe, err := os.Executable()
	if err != nil {
		res.died, res.stderr = true, err.Error()
		return res
	}
	cmd := exec.Command(exe, "-child")
	in, _ := json.Marshal(batch)
	cmd.Stdin = bytes.NewReader(in)
	var errb bytes.Buffer
	cmd.Stderr = &errb
	stdout, _ := cmd.StdoutPipe()
	if err := cmd.Start(); err != nil {
		res.died, res.stderr = true, err.Error()
		return res
	}
	timer := time.AfterFunc(timeout, func() { _ = cmd.Process.Kill() })
	defer timer.Stop()
	sc := bufio.NewScanner(stdout)
	sc.Buffer(make([]byte, 1<<20), 1<<28)
	for sc.Scan() {
		var m childMsg
		if json.Unmarshal(sc.Bytes(), &m) != nil {
			continue
		}
		switch m.Type {
		case "progress":
			res.progress[m.ID] = m.Event
		case "result":
			res.results[m.ID] = m.Result
		}
	}
	if err := cmd.Wait(); err != nil {
		res.died = true
	}
	res.stderr = errb.String()
	return res
}

// panicLine extracts "panic: ..." and the innermost livesim2 function from a Go crash dump.
func panicLine(stderr string) string {
	lines := strings.Split(stderr, "\n")
	msg, fn := "", ""
	for i, l := range lines {
		if msg == "" && (strings.HasPrefix(l, "panic: ") || strings.HasPrefix(l, "fatal error: ")) {
			msg = strings.TrimSpace(l)
			if j := strings.Index(msg, " [recovered]"); j > 0 {
				msg = msg[:j]
			}
			for _, l2 := range lines[i:] {
				if strings.Contains(l2, "Dash-Industry-Forum/livesim2/") && strings.Contains(l2, "(") && !strings.HasPrefix(l2, "\t") && !strings.HasPrefix(l2, "created by") {
					f := l2
					if k := strings.LastIndex(f, "/"); k >= 0 {
						f = f[k+1:]
					}
					if k := strings.Index(f, "("); k > 0 && !strings.HasPrefix(f[k:], "(*") {
						f = f[:k]
					} else if k := strings.LastIndex(f, "("); k > 0 {
						f = f[:k]
					}
					fn = f
					break
				}
			}
		}
	}
	if msg == "" {
		return ""
	}
	if strings.Contains(msg, "nil pointer dereference") {
		msg = "panic: nil pointer dereference"
	}
	return msg + " in " + fn
}

// ---------------------------------------------------------------- session generation

type assetSpec struct {
	path, mpd string
	maxSteps  int
}

var sessAssets = []assetSpec{
	{"testpic_2s", "Manifest.mpd", 12},
	{"testpic_2s", "Manifest_imsc1.mpd", 6},
	{"testpic_8s", "Manifest.mpd", 5},
	{"testpic_6s", "Manifest.mpd", 5},
	{"testpic_alt_seg_dur_stl", "Manifest.mpd", 6},
	{"WAVE/vectors/cfhd_sets/12.5_25_50/t3/2022-10-17", "stream.mpd", 8},
	{"WAVE/vectors/cfhd_sets/14.985_29.97_59.94/t1/2022-10-17", "stream.mpd", 5},
}

func steps(n int) []evIn {
	out := make([]evIn, n)
	for i := range out {
		out[i] = evIn{Kind: "step"}
	}
	return out
}

func intp(v int) *int { return &v }

// audioOnlyAsset writes a VoD asset with only the audio track of testpic_2s below dir: the AAC track
// is then the reference representation, its segments (96256/48000 s = 2005.33 ms) are not whole
// milliseconds.
const audioOnlyName = "audio_only_2s"

func audioOnlyAsset(dir string) (*lib.TLAsset, error) {
	src := filepath.Join(lib.TestVodRoot, "testpic_2s", "A48")
	dst := filepath.Join(dir, audioOnlyName, "A48")
	if err := os.MkdirAll(dst, 0o755); err != nil {
		return nil, err
	}
	entries, err := os.ReadDir(src)
	if err != nil {
		return nil, err
	}
	for _, e := range entries {
		data, err := os.ReadFile(filepath.Join(src, e.Name()))
		if err != nil {
			return nil, err
		}
		if err := os.WriteFile(filepath.Join(dst, e.Name()), data, 0o644); err != nil {
			return nil, err
		}
	}
	mpd := `<?xml version="1.0" encoding="utf-8"?>
<MPD xmlns="urn:mpeg:dash:schema:mpd:2011" profiles="urn:mpeg:dash:profile:isoff-live:2011" maxSegmentDuration="PT2S" minBufferTime="PT2S" type="static" mediaPresentationDuration="PT8S" id="audio">
   <Period id="one" start="PT0S">
      <AdaptationSet contentType="audio" id="1" mimeType="audio/mp4" lang="en" segmentAlignment="true" startWithSAP="1">
         <SegmentTemplate startNumber="1" initialization="$RepresentationID$/init.mp4" duration="2" media="$RepresentationID$/$Number$.m4s"/>
         <Representation id="A48" codecs="mp4a.40.2" bandwidth="48000" audioSamplingRate="48000"/>
      </AdaptationSet>
   </Period>
</MPD>
`
	if err := os.WriteFile(filepath.Join(dir, audioOnlyName, "Manifest.mpd"), []byte(mpd), 0o644); err != nil {
		return nil, err
	}
	vr, trex, err := lib.LoadVodRep(dst, "A48")
	if err != nil {
		return nil, err
	}
	r := &lib.TLRep{VodRep: vr, Trex: trex, Kind: "audio", Ext: ".m4s"}
	return &lib.TLAsset{Path: audioOnlyName, MPD: "Manifest.mpd", Reps: []*lib.TLRep{r}, RefTS: vr.Timescale, RefDur: vr.Duration(),
		LoopMS: 1000 * vr.Duration() / vr.Timescale}, nil
}

// genLayouts are the generated assets the sessions use besides the bundled ones: several video
// representations with different media timescales (no bundled asset has more than one), several
// audio tracks, file-based subtitles.
func genLayouts() []lib.GenAsset {
	var out []lib.GenAsset
	for _, l := range lib.GenCatalogue() {
		if l.Asset.Name == "g_ntsc_multi" {
			out = append(out, l.Asset)
		}
	}
	v2s := lib.UniformDurs(4, 180000)
	out = append(out, lib.GenAsset{Name: "g_c16_multi", Reps: []lib.GenRep{
		lib.VideoRep("V1", 90000, 3000, v2s),
		lib.VideoRep("V2", 12800, 512, lib.UniformDurs(4, 25600)),
		lib.VideoRep("V3", 1000, 40, lib.UniformDurs(4, 2000)),
		lib.AudioRep("A48", 1024, lib.AudioDursFollowing(v2s, 90000, 48000, 1024, 0)),
		lib.AudioRep("A48b", 1024, lib.AudioDursFollowing(v2s, 90000, 48000, 1024, 0)),
		lib.StppRep("sub_en", 1000, lib.UniformDurs(4, 2000)),
	}})
	// two video tracks with a different number of segments for the same loop (8 x 1 s and 4 x 2 s are
	// not aligned segment by segment, so the tracks below keep the segment grid and differ in timescale only)
	out = append(out, lib.GenAsset{Name: "g_c16_two_video", Reps: []lib.GenRep{
		lib.VideoRep("Va", 30000, 1001, lib.UniformDurs(5, 60*1001)),
		lib.VideoRep("Vb", 60000, 1001, lib.UniformDurs(5, 120*1001)),
	}})
	return out
}

func genSessions(c *lib.Ctx, rng *rand.Rand) []sessIn {
	var out []sessIn
	add := func(s sessIn) {
		s.ID = len(out)
		if s.DestName == "" {
			s.DestName = fmt.Sprintf("dest%d", s.ID)
		}
		s.Cfg.normalize()
		if !c.Thorough() && s.StopAfterRefused == 0 {
			s.StopAfterRefused = 1
		}
		out = append(out, s)
	}
	mult := 1
	if c.Thorough() {
		mult = 10
	}
	nows := func(a assetSpec) []int64 {
		// breakpoints of the live edge: just before / at / after a segment end, around the loop wrap, far away
		base := []int64{10000, 9999, 10001, 16000, 15999, 8000, 7999, 24000, 50123, 1700000000000, 1700000007999, 3599999, 86400000}
		return base
	}
	// 1. plain step sessions: assets x modes x nowMS x number of steps 0..12
	for rep := 0; rep < mult; rep++ {
		for ai, a := range sessAssets {
			trunc := strings.Contains(a.path, "29.97")
			for mi, mode := range []string{"number", "tlt", "tlnr"} {
				ns := nows(a)
				for k := 0; k < 3; k++ {
					now := ns[(ai*5+mi*3+k*4+rep)%len(ns)]
					n := (ai + mi*2 + k*5 + rep*3) % (a.maxSteps + 1)
					if trunc && rep == 0 && k > 0 {
						continue // the 1 MB segments of this asset are slow to hash; one per mode in the quick tier
					}
					s := sessIn{Kind: "steps", Asset: a.path, MPD: a.mpd, Cfg: cfgIn{Mode: mode, Snr: -1, Tsbd: -1}, NowMS: now, Test: true, Events: steps(n)}
					s.Streams = (ai+mi+k+rep)%3 == 0
					if (ai+k+rep)%4 == 1 {
						s.User, s.Pass = "user"+fmt.Sprint(k), "pw:"+fmt.Sprint(ai)
					}
					if (ai+mi+k)%5 == 2 {
						s.Cfg.StartS = []int64{1, 6, 7, 3600}[(ai+k+rep)%4]
						if now < s.Cfg.StartS*1000+20000 {
							s.NowMS = s.Cfg.StartS*1000 + now
						}
					}
					if (ai*3+mi+k)%7 == 3 {
						s.Cfg.Tsbd = []int64{10, 30, 300}[(ai+k)%3]
					}
					add(s)
				}
			}
		}
	}
	// 2. durations: stop after floor(dur*1000/segDurMS)+1 segments, last one lmsg; more triggers than needed
	for rep := 0; rep < mult; rep++ {
		for ai, a := range sessAssets[:6] {
			for k, dur := range []int{0, 1, 2, 5, 7, 16, 3} {
				if (ai+k+rep)%2 == 1 && !c.Thorough() {
					continue
				}
				mode := []string{"number", "tlt", "tlnr"}[(ai+k+rep)%3]
				s := sessIn{Kind: "duration", Asset: a.path, MPD: a.mpd, Cfg: cfgIn{Mode: mode, Snr: -1, Tsbd: -1}, NowMS: 10000 + int64(rep*2000+k*777), Test: true, Dur: intp(dur)}
				s.Streams = (ai+k)%2 == 0
				s.Events = steps(3 + (ai+k+rep)%6)
				add(s)
			}
		}
	}
	// 3. delete: in the middle, at once, twice; a step after the delete must not deliver anything
	for rep := 0; rep < mult; rep++ {
		for ai, a := range sessAssets[:6] {
			for k := 0; k < 2; k++ {
				n := (ai + k*2 + rep) % 4
				ev := append(steps(n), evIn{Kind: "delete"})
				switch (ai + k + rep) % 3 {
				case 0:
					ev = append(ev, evIn{Kind: "step"})
				case 1:
					ev = append(ev, evIn{Kind: "delete"})
				}
				s := sessIn{Kind: "delete", Asset: a.path, MPD: a.mpd, Cfg: cfgIn{Mode: []string{"number", "tlt"}[(ai+k)%2], Snr: -1, Tsbd: -1}, NowMS: 12000 + int64(rep)*1999, Test: true, Events: ev}
				if k == 1 {
					s.Dur = intp(20)
				}
				add(s)
			}
		}
	}
	// 4. receivers that refuse: an init (session must stop after the init round), a media segment (not chunked: goes on)
	for rep := 0; rep < mult; rep++ {
		for ai, a := range sessAssets[:5] {
			s := sessIn{Kind: "init-refused", Asset: a.path, MPD: a.mpd, Cfg: cfgIn{Mode: "number", Snr: -1, Tsbd: -1}, NowMS: 20000 + int64(rep)*2000, Test: true, Events: steps(1)}
			s.InitRefuse = []string{[]string{"V300", "A48"}[(ai+rep)%2]}
			add(s)
			ev := steps(4)
			ev[1].Refuse = []string{"V300"}
			ev[2].Refuse = []string{"A48"}
			ev[2].Early = (ai+rep)%2 == 0
			s2 := sessIn{Kind: "media-refused", Asset: a.path, MPD: a.mpd, Cfg: cfgIn{Mode: []string{"number", "tlt"}[(ai+rep)%2], Snr: -1, Tsbd: -1}, NowMS: 30000 + int64(rep)*2000, Test: true, Events: ev}
			add(s2)
			ev3 := steps(3)
			ev3[1].SlowRep, ev3[1].SlowMS = "A48", 300
			add(sessIn{Kind: "slow-receiver", Asset: a.path, MPD: a.mpd, Cfg: cfgIn{Mode: "number", Snr: -1, Tsbd: -1}, NowMS: 40000 + int64(rep)*2000, Test: true, Events: ev3, Dur: intp(60)})
		}
	}
	// 5. generated subtitles (timesubsstpp_/timesubswvtt_) under every addressing mode: the generated
	//    tracks are representations like the others (init first, one segment per step, body == GET,
	//    $Time$ address == tfdt in milliseconds)
	subsCfgs := []struct {
		stpp, wvtt []string
	}{{[]string{"en"}, nil}, {[]string{"en", "sv"}, nil}, {nil, []string{"en"}}, {[]string{"sv"}, []string{"en", "de"}}}
	for rep := 0; rep < mult; rep++ {
		for k, sc := range subsCfgs {
			for mi, mode := range []string{"tlt", "number", "tlnr"} {
				if !c.Thorough() && (k+mi)%2 == 1 && mode != "tlt" {
					continue
				}
				a := sessAssets[[]int{0, 0, 3, 2}[(k+mi+rep)%4]]
				if rep > 0 {
					a = sessAssets[(k+mi+rep)%6]
				}
				s := sessIn{Kind: "timesubs", Asset: a.path, MPD: a.mpd, Cfg: cfgIn{Mode: mode, Snr: -1, Tsbd: -1, TimeSubs: sc.stpp, TimeSubsW: sc.wvtt},
					NowMS: []int64{10000, 425842, 1700000000000, 24000}[(k+mi+rep)%4], Test: true, Events: steps(2 + (k+mi+rep)%3), Streams: (k+mi)%3 == 1}
				if (k+mi+rep)%3 == 2 {
					s.Dur = intp(4)
				}
				add(s)
			}
		}
	}
	// 6. chunked low latency: every step takes about ato seconds of real time; few, in parallel
	chunkedCfgs := []struct {
		asset  assetSpec
		ato    int64
		chunk  int64
		mode   string
		nsteps int
	}{
		{sessAssets[0], 1000, 1000, "number", 2},
		{sessAssets[0], 1500, 500, "tlt", 2},
		{sessAssets[3], 1000, 500, "number", 1},
		{sessAssets[5], 500, 500, "tlnr", 2},
	}
	for i, cc := range chunkedCfgs {
		if i >= 3 && !c.Thorough() {
			break
		}
		s := sessIn{Kind: "chunked", Asset: cc.asset.path, MPD: cc.asset.mpd, Cfg: cfgIn{Mode: cc.mode, Snr: -1, Tsbd: -1, AtoMS: cc.ato, ChunkDurMS: cc.chunk},
			NowMS: 10000 + int64(i)*2000, Test: true, Events: steps(cc.nsteps), Streams: i == 1}
		if i == 0 {
			s.Dur = intp(2)
			s.Events = steps(3)
		}
		add(s)
	}
	// availability time offset without chunking
	for i, ato := range []int64{500, 1000, 570, 1500} {
		if i >= 2 && !c.Thorough() {
			break
		}
		a := sessAssets[i%4]
		add(sessIn{Kind: "ato", Asset: a.path, MPD: a.mpd, Cfg: cfgIn{Mode: []string{"number", "tlt"}[i%2], Snr: -1, Tsbd: -1, AtoMS: ato}, NowMS: 10000 + int64(i)*1000, Test: true, Events: steps(3)})
	}
	// availability time offsets whose product with 1000 is not exact in float64 (1.001*1000 =
	// 1000.9999999999999): the session loop rounds (end-ato)*1000 up, the $Time$ address lookup uses
	// int(ato*1000); the two must still agree on the segment
	inexact := []struct {
		ai  int
		ato int64
	}{{0, 1001}, {0, 1003}, {2, 2002}, {0, 299}, {1, 570}, {3, 1007}, {2, 7001}, {4, 3003}, {0, 1999}, {5, 1013}}
	for i, x := range inexact {
		modes := []string{"tlt"}
		if c.Thorough() || i%4 == 0 {
			modes = append(modes, "number")
		}
		if i >= 6 && !c.Thorough() {
			break
		}
		for mi, mode := range modes {
			for k := 0; k < mult; k++ {
				a := sessAssets[x.ai]
				add(sessIn{Kind: "ato-inexact", Asset: a.path, MPD: a.mpd, Cfg: cfgIn{Mode: mode, Snr: -1, Tsbd: -1, AtoMS: x.ato},
					NowMS: 20000 + int64(i)*1003 + int64(k)*7919, Test: true, Events: steps(3 + (i+mi+k)%3), Streams: (i+k)%2 == 1})
			}
		}
	}
	// 7. findings stream: configurations where the unchanged code is expected to fail
	w := sessAssets[6]
	//   (a) 29.97 fps: 8*60060/30000 s * 1000 is 16015.999999999998 in float64; since fix f4e8dbe the
	//       availability time is rounded up (before: truncated, the step for number 7 delivered nothing,
	//       with chunking the rejected request killed the process). Kept in the stream: a regression shows here.
	add(sessIn{Kind: "r:truncation", Asset: w.path, MPD: w.mpd, Cfg: cfgIn{Mode: "number", Snr: -1, Tsbd: -1}, NowMS: 10000, Test: true, Events: steps(5)})
	add(sessIn{Kind: "r:truncation-chunked", Asset: w.path, MPD: w.mpd, Cfg: cfgIn{Mode: "number", Snr: -1, Tsbd: -1, AtoMS: 1000, ChunkDurMS: 1000}, NowMS: 15000, Test: true, Events: steps(1), Solo: true})
	//   (b) chunked transfer and a request that writeSegment rejects (here: number -1 of a session created
	//       before the first segment is complete): send on closed channel, the process dies
	add(sessIn{Kind: "r:chunked-before-first", Asset: "testpic_2s", MPD: "Manifest.mpd", Cfg: cfgIn{Mode: "number", Snr: -1, Tsbd: -1, AtoMS: 1000, ChunkDurMS: 1000}, NowMS: 500, Test: true, Events: steps(1), Solo: true})
	//   (c) $Time$ addressing with generated subtitles: nil representation in generateTimelineEntries
	add(sessIn{Kind: "r:timeline-timesubs", Asset: "testpic_2s", MPD: "Manifest.mpd", Cfg: cfgIn{Mode: "tlt", Snr: -1, Tsbd: -1, TimeSubs: []string{"en"}}, NowMS: 10000, Test: true, Events: steps(1)})
	//   (d) chunked and a receiver that answers 500 once: the session hangs for ever
	{
		ev := steps(2)
		ev[0].Refuse = []string{"V300"}
		add(sessIn{Kind: "f:chunked-refused", Asset: "testpic_2s", MPD: "Manifest.mpd", Cfg: cfgIn{Mode: "number", Snr: -1, Tsbd: -1, AtoMS: 1000, ChunkDurMS: 1000}, NowMS: 10000, Test: true, Events: append(ev, evIn{Kind: "delete"})})
	}
	//   (e) a start number: the session numbers from the live edge as if the start number were 0
	add(sessIn{Kind: "r:startnr", Asset: "testpic_2s", MPD: "Manifest.mpd", Cfg: cfgIn{Mode: "number", Snr: 3, Tsbd: -1}, NowMS: 10000, Test: true, Events: steps(2)})
	add(sessIn{Kind: "r:startnr-above-edge", Asset: "testpic_2s", MPD: "Manifest.mpd", Cfg: cfgIn{Mode: "number", Snr: 10, Tsbd: -1}, NowMS: 10000, Test: true, Events: steps(1), Solo: true})
	//   (f) started before the first segment is complete: the first trigger asks for segment -1
	add(sessIn{Kind: "r:before-first", Asset: "testpic_2s", MPD: "Manifest.mpd", Cfg: cfgIn{Mode: "number", Snr: -1, Tsbd: -1}, NowMS: 1000, Test: true, Events: steps(3)})
	// 8. real time (no testNowMS): the timer drives the session; a receiver slower than a segment
	//    duration makes the sender catch up (the caught-up segment is never marked as last)
	if c.Thorough() { // the quick tier keeps one real-time session (the catch-up one below)
		add(sessIn{Kind: "realtime", Asset: "testpic_2s", MPD: "Manifest.mpd", Cfg: cfgIn{Mode: "number", Snr: -1, Tsbd: -1}, Test: false, AlignMS: 2000, AlignOff: 300, Solo: true,
			Events: []evIn{{Kind: "wait", WaitMS: 2000}, {Kind: "wait", WaitMS: 2000}, {Kind: "delete"}}})
	}
	// 13. uploads that take long: a receiver that needs more than 5 s before it reads one upload (the sender
	//     has to wait: the segment arrives whole, the next step goes on), and a chunked upload that stays
	//     open for 7 s (8 s segments, ato_7/chunkdur_1)
	{
		ev := steps(2)
		ev[0].SlowRep, ev[0].SlowMS = "A48", 5600
		add(sessIn{Kind: "very-slow-receiver", Asset: "testpic_2s", MPD: "Manifest.mpd", Cfg: cfgIn{Mode: "number", Snr: -1, Tsbd: -1}, NowMS: 20000, Test: true, Events: ev, Solo: true})
		nlong := 1 // 7 s of real time per step
		if c.Thorough() {
			nlong = 2
		}
		add(sessIn{Kind: "chunked-long-upload", Asset: "testpic_8s", MPD: "Manifest.mpd", Cfg: cfgIn{Mode: "number", Snr: -1, Tsbd: -1, AtoMS: 7000, ChunkDurMS: 1000},
			NowMS: 40000, Test: true, Events: steps(nlong), Solo: true})
	}
	// 12. generated assets with several video representations of different timescales, two audio
	//     tracks and subtitles: every representation endpoint gets its own segment per step
	genRoot := filepath.Join(c.Out, "vod_c16")
	for gi, g := range genLayouts() {
		for mi, mode := range []string{"tlt", "number", "tlnr"} {
			if mi >= 2 && !c.Thorough() {
				continue
			}
			for k := 0; k < mult; k++ {
				now := []int64{10000, 1700000000000, 16016, 8008, 3600000}[(gi+mi+k)%5]
				s := sessIn{Kind: "gen-multi-video", Asset: g.Name, MPD: "Manifest.mpd", VodRoot: genRoot, Cfg: cfgIn{Mode: mode, Snr: -1, Tsbd: -1},
					NowMS: now, Test: true, Events: steps(2 + (gi+mi+k)%4), Streams: (gi+mi+k)%3 == 1}
				if (gi+mi+k)%4 == 3 {
					s.Dur = intp(3)
					s.Events = steps(4)
				}
				add(s)
			}
		}
	}
	// 11. an audio-only asset: the reference representation is the AAC track, whose segment ends are not
	//     whole milliseconds; long enough to cross the loop boundary twice
	for i, mode := range []string{"number", "tlnr"} {
		if i >= 1 && !c.Thorough() {
			break
		}
		add(sessIn{Kind: "audio-only", Asset: audioOnlyName, MPD: "Manifest.mpd", VodRoot: filepath.Join(c.Out, "vod_c16"), Solo: true,
			Cfg: cfgIn{Mode: mode, Snr: -1, Tsbd: -1}, NowMS: 9000 + int64(i)*8000, Test: true, Events: steps(12)})
	}
	// 10. successive sessions of the same user to the same receiver host with different passwords
	//     (a rotated password), and one without credentials: each must carry its own
	for i, pw := range []string{"first-pw", "second-pw", "", "third-pw"} {
		s := sessIn{Kind: "same-user-same-host", Asset: "testpic_2s", MPD: "Manifest.mpd", Cfg: cfgIn{Mode: []string{"number", "tlt"}[i%2], Snr: -1, Tsbd: -1},
			NowMS: 10000 + int64(i)*2000, Test: true, Group: "rotated-password", Events: steps(1), Streams: i == 1}
		if pw != "" {
			s.User, s.Pass = "ingest", pw
		}
		add(s)
	}
	// 9. DELETE while an init segment is being uploaded (the session is not yet "running"): it must
	//    stop all the same: no later init, no step taken, no media segment
	for i, hold := range []struct {
		a    assetSpec
		rep  string
		mode string
	}{{sessAssets[0], "V300", "number"}, {sessAssets[0], "A48", "tlt"}, {sessAssets[1], "A48", "number"}, {sessAssets[3], "V300", "tlnr"}} {
		if i >= 2 && !c.Thorough() {
			break
		}
		add(sessIn{Kind: "delete-during-init", Asset: hold.a.path, MPD: hold.a.mpd, Cfg: cfgIn{Mode: hold.mode, Snr: -1, Tsbd: -1}, NowMS: 10000 + int64(i)*2000,
			Test: true, HoldInit: hold.rep, Events: steps(1 + i%2)})
	}
	add(sessIn{Kind: "r:realtime-catchup", Asset: "testpic_2s", MPD: "Manifest.mpd", Cfg: cfgIn{Mode: "number", Snr: -1, Tsbd: -1}, Test: false, AlignMS: 2000, AlignOff: 600, Dur: intp(2), Solo: true,
		Events: []evIn{{Kind: "wait", WaitMS: 4400, SlowRep: "V300", SlowMS: 2300}}})
	return out
}

func (c *cfgIn) normalize() {
	if c.Mode == "" {
		c.Mode = "number"
	}
}

// ---------------------------------------------------------------- running and judging

type repInfo struct {
	id, ctype, ext string
	tab            *lib.TLRep
}

func runSessions(c *lib.Ctx, terms *[]string) error {
	assets, err := lib.LoadBundledAssets(lib.TestVodRoot)
	if err != nil {
		return err
	}
	byPath := map[string]*lib.TLAsset{}
	for _, a := range assets {
		byPath[a.Path] = a
	}
	ao, err := audioOnlyAsset(filepath.Join(c.Out, "vod_c16"))
	if err != nil {
		return err
	}
	byPath[ao.Path] = ao
	for _, g := range genLayouts() {
		if err := lib.WriteAsset(filepath.Join(c.Out, "vod_c16"), g); err != nil {
			return fmt.Errorf("write %s: %w", g.Name, err)
		}
		ga, err := lib.LoadGenAsset(filepath.Join(c.Out, "vod_c16"), g)
		if err != nil {
			return err
		}
		byPath[ga.Path] = ga
	}
	rng := rand.New(rand.NewSource(c.Seed*15485863 + 16))
	sessions := genSessions(c, rng)
	outs := playAll(c, sessions)
	probeSessions(sessions, outs)
	for i := range sessions {
		s := &sessions[i]
		judge(c, terms, s, outs[s.ID], byPath[s.Asset])
	}
	c.Res.DistinctNontrivial += len(sessions)
	return nil
}

type played struct {
	out   *sessOut
	died  bool
	at    int // event index at which the process died
	panic string
}

// playAll runs the sessions in child processes: batches of sessions that share one livesim2
// instance (and run concurrently in it), solo processes for those expected to kill it. When a batch
// dies, its unfinished sessions are replayed one per process to find the one responsible.
func playAll(c *lib.Ctx, sessions []sessIn) map[int]*played {
	res := map[int]*played{}
	var mu sync.Mutex
	var batches [][]sessIn
	var cur []sessIn
	per := 14
	groups := map[string][]sessIn{}
	curAlt := map[string][]sessIn{}
	var groupOrder []string
	for _, s := range sessions {
		if s.Solo {
			batches = append(batches, []sessIn{s})
			continue
		}
		if s.Group != "" { // one process, one receiver host for the whole group
			if _, ok := groups[s.Group]; !ok {
				groupOrder = append(groupOrder, s.Group)
			}
			groups[s.Group] = append(groups[s.Group], s)
			continue
		}
		if s.VodRoot != "" { // one livesim2 instance per vodroot
			curAlt[s.VodRoot] = append(curAlt[s.VodRoot], s)
			if len(curAlt[s.VodRoot]) >= per {
				batches = append(batches, curAlt[s.VodRoot])
				curAlt[s.VodRoot] = nil
			}
			continue
		}
		cur = append(cur, s)
		if len(cur) >= per {
			batches = append(batches, cur)
			cur = nil
		}
	}
	if len(cur) > 0 {
		batches = append(batches, cur)
	}
	for _, b := range curAlt {
		if len(b) > 0 {
			batches = append(batches, b)
		}
	}
	for _, g := range groupOrder {
		batches = append(batches, groups[g])
	}
	// slow batches first
	sort.SliceStable(batches, func(i, j int) bool { return batchCost(batches[i]) > batchCost(batches[j]) })
	sem := make(chan struct{}, 8)
	var wg sync.WaitGroup
	var runBatch func(b []sessIn, depth int)
	runBatch = func(b []sessIn, depth int) {
		defer wg.Done()
		sem <- struct{}{}
		cr := runChild(b, 120*time.Second)
		<-sem
		var redo []sessIn
		mu.Lock()
		for _, s := range b {
			if o, ok := cr.results[s.ID]; ok {
				res[s.ID] = &played{out: o}
				continue
			}
			if len(b) == 1 {
				res[s.ID] = &played{died: true, at: cr.progress[s.ID], panic: panicLine(cr.stderr)}
				if res[s.ID].panic == "" {
					res[s.ID].panic = "process ended without a result: " + lastLine(cr.stderr)
				}
			} else {
				redo = append(redo, s)
			}
		}
		mu.Unlock()
		for _, s := range redo {
			wg.Add(1)
			go runBatch([]sessIn{s}, depth+1)
		}
	}
	for _, b := range batches {
		wg.Add(1)
		go runBatch(b, 0)
	}
	wg.Wait()
	return res
}

func lastLine(s string) string {
	s = strings.TrimSpace(s)
	if i := strings.LastIndex(s, "\n"); i >= 0 {
		s = s[i+1:]
	}
	if len(s) > 200 {
		s = s[:200]
	}
	return s
}

func batchCost(b []sessIn) int {
	cost := 0
	for _, s := range b {
		c := len(s.Events)
		if s.Cfg.ChunkDurMS > 0 {
			c += 50 * len(s.Events)
		}
		if !s.Test {
			c += 200
		}
		if c > cost {
			cost = c
		}
	}
	return cost
}

// liveEdge is the harness's own statement of the newest segment of the reference representation
// that has ended at nowMS: the largest n >= 0 with E(n)/ts + startS <= now (in seconds), -1 if none.
func liveEdge(ref *lib.TLRep, startS, nowMS int64) int64 {
	rel := (nowMS - startS*1000) * ref.Timescale // in ms*ticks
	if rel < 0 {
		return -1
	}
	N := int64(len(ref.Segs))
	D := ref.Duration()
	wraps := (rel / 1000) / D
	n := wraps*N - 1
	if n < -1 {
		n = -1
	}
	for ref.LoopE(n+1)*1000 <= rel {
		n++
	}
	return n
}

func basicAuth(u, p string) string {
	return "Basic " + base64.StdEncoding.EncodeToString([]byte(u+":"+p))
}

func extOf(ctype string) string {
	switch ctype {
	case "video":
		return ".cmfv"
	case "audio":
		return ".cmfa"
	case "text":
		return ".cmft"
	}
	return "?"
}

func mimeOf(ctype string) string {
	switch ctype {
	case "video":
		return "video/mp4"
	case "audio":
		return "audio/mp4"
	case "text":
		return "application/mp4"
	}
	return "?"
}

func judge(c *lib.Ctx, terms *[]string, s *sessIn, p *played, a *lib.TLAsset) {
	id := len(*terms)
	cid := fmt.Sprint(id)
	c.Res.Inputs[cid] = s
	c.Count("session:" + s.Kind)
	c.Count("session-mode:" + s.Cfg.Mode)
	c.Count(fmt.Sprintf("session-steps:%02d", len(s.Events)))
	beforeFirst := false
	fail := func(key, what string) {
		if beforeFirst && !strings.Contains(key, "before-first-segment") {
			// everything that goes wrong in a session created before the first segment is complete is
			// booked on that start condition (number -1, lastSegNrToSend == -1 == nextSegNr, ...)
			key = "before-first-segment:" + key
		}
		c.Fail(cid, key, what, s)
	}
	if p == nil {
		fail("harness:no-result", "no result for the session")
		return
	}
	if p.died {
		// The process died while this session was alone in it.
		c.Count("session:process-died")
		fail("crash:"+p.panic, fmt.Sprintf("the livesim2 process died at event %d of the session: %s", p.at, p.panic))
		// model: needs the asset information that only a live process gives; use the harness's own tables
		if t := sessTermDead(id, s, a); t != "" {
			*terms = append(*terms, t)
		}
		return
	}
	o := p.out
	if o.CreateStatus != 201 {
		fail(fmt.Sprintf("create:%d", o.CreateStatus), "POST /api/cmaf-ingests failed: "+o.CreateBody)
		return
	}
	if o.Err != "" {
		fail("harness:"+o.Err, o.Err)
		return
	}
	// ---- the session as the oracle sees it
	reps := make([]repInfo, len(o.Reps))
	repIdx := map[string]int{}
	for i, r := range o.Reps {
		reps[i] = repInfo{id: r[0], ctype: r[1], ext: r[2], tab: a.Rep(r[0])}
		repIdx[r[0]] = i
	}
	ref := a.Rep(o.RefRep)
	if ref == nil {
		fail("harness:ref", "reference representation "+o.RefRep+" unknown to the harness")
		return
	}
	now := s.NowMS
	if !s.Test {
		now = o.RealNowMS
	}
	startNr := int64(0)
	if s.Cfg.Snr >= 0 {
		startNr = s.Cfg.Snr
	}
	edge := liveEdge(ref, s.Cfg.StartS, now)
	beforeFirst = edge < 0
	timeMode := s.Cfg.Mode == "tlt"

	// O1: init first, one per representation, nothing else before the first event
	seenInit := map[string]int{}
	for _, q := range o.Inits {
		checkHeaders(fail, s, q, reps, repIdx, true)
		if !q.IsInit {
			fail("init:not-init", fmt.Sprintf("PUT %s before the first step is not an init segment (%s)", q.Path, q.ParseErr))
		} else if !q.GetEqual {
			fail("init:differs", fmt.Sprintf("init of %s: %s (GET %d)", q.Rep, q.GetNote, q.GetCode))
		}
		seenInit[q.Rep]++
	}
	holdIdx := -1
	if s.HoldInit != "" {
		if i, ok := repIdx[s.HoldInit]; ok {
			holdIdx = i
		} else {
			fail("harness:hold", "representation to hold is not part of the session: "+s.HoldInit)
			return
		}
	}
	for i, r := range reps {
		want := 1
		if holdIdx >= 0 && i > holdIdx {
			want = 0 // the session was deleted while an earlier init was being uploaded
		}
		if seenInit[r.id] != want {
			key := "init:count"
			if want == 0 {
				key = "delete:continues"
			}
			fail(key, fmt.Sprintf("representation %s got %d init segments, expected %d", r.id, seenInit[r.id], want))
		}
	}
	initRefused := len(s.InitRefuse) > 0 || holdIdx >= 0

	// walk through the events
	active := !initRefused
	sent := int64(0) // media segments delivered per representation so far (per step)
	total := int64(-1)
	if s.Dur != nil && o.SegDurMS > 0 {
		total = int64(*s.Dur)*1000/int64(o.SegDurMS) + 1
	}
	if o.HasNr && s.Dur != nil && int64(o.NrSegs)+1 != total {
		fail("duration:nr-segs", fmt.Sprintf("nrSegsToSend=%d for duration %d s and segment duration %d ms", o.NrSegs, *s.Dur, o.SegDurMS))
	}
	perRep := map[string][]putObs{}
	hungBy := ""
	for k, e := range s.Events {
		if k >= len(o.Events) {
			break
		}
		eo := o.Events[k]
		for _, q := range eo.Puts {
			perRep[q.Rep] = append(perRep[q.Rep], q)
			checkHeaders(fail, s, q, reps, repIdx, false)
		}
		switch e.Kind {
		case "step":
			expectPuts := active && (total < 0 || sent < total)
			if !eo.Returned {
				switch {
				case expectPuts && hungBy != "":
					fail("hang:"+hungBy, fmt.Sprintf("step %d is not taken (status %d): the session is stuck since a receiver answered a chunked PUT with an error", k, eo.Status))
				case expectPuts:
					fail("hang:step", fmt.Sprintf("step %d of a live session is not taken (status %d, 0 = no answer)", k, eo.Status))
				default:
					c.Count("api:step-after-end-blocks")
				}
				continue
			}
			if !expectPuts {
				key := "stop:continues"
				if holdIdx >= 0 {
					key = "delete:continues"
				}
				if len(eo.Puts) > 0 {
					fail(key, fmt.Sprintf("step %d delivered %d PUTs although the session had ended", k, len(eo.Puts)))
				} else {
					fail(key, fmt.Sprintf("step %d was taken (status 200) although the session had ended", k))
				}
				continue
			}
			// exactly one PUT per representation
			cnt := map[string]int{}
			for _, q := range eo.Puts {
				cnt[q.Rep]++
			}
			for _, r := range reps {
				if cnt[r.id] != 1 {
					key := "step:count"
					what := fmt.Sprintf("step %d delivered %d segments to representation %s", k, cnt[r.id], r.id)
					if cnt[r.id] == 0 && edge < 0 && sent == 0 {
						key = "step:missing:before-first-segment"
					} else if cnt[r.id] == 0 {
						if why := explainMissing(s, o, ref, startNr, edge+1+sent); why != "" {
							key, what = "step:missing:"+why, what+" ("+why+")"
						}
					}
					fail(key, what)
				}
			}
			if len(e.Refuse) > 0 && o.Chunked {
				hungBy = "chunked-receiver-error"
			}
			sent++
		case "delete":
			if !eo.Returned || eo.Status != 200 {
				fail("delete:api", fmt.Sprintf("DELETE answered %d", eo.Status))
			}
			if len(eo.Puts) > 0 {
				fail("delete:continues", "PUTs after DELETE")
			}
			active = false
		case "wait":
			// real time: whatever arrives is checked by the sequence rules below
		}
	}
	// O2: per representation consecutive ids from the live edge + 1, no gap, duplicate, reordering; body == GET
	for _, r := range reps {
		seq := perRep[r.id]
		for j, q := range seq {
			if !q.BodyRead {
				// refused before the body was read: only the path tells the number
				if q.PathID >= 0 && !timeMode {
					seq[j].SeqNr = q.PathID
					q.SeqNr = q.PathID
				} else {
					seq[j].ParseErr = "body not read"
					continue
				}
			} else if q.IsInit || q.ParseErr != "" {
				fail("media:not-media", fmt.Sprintf("PUT %s is not a media segment: %s", q.Path, q.ParseErr))
				continue
			}
			wantNr := startNr + edge + 1 + int64(j)
			if q.SeqNr != wantNr && j == 0 {
				key := "order:first"
				if s.Cfg.Snr > 0 {
					key = "order:first:startnr"
				}
				if edge < 0 {
					key = "order:first:before-first-segment"
				}
				fail(key, fmt.Sprintf("%s: first media segment has number %d, the live edge at %d ms is %d", r.id, q.SeqNr, now, startNr+edge))
			} else if j > 0 && q.SeqNr != seq[j-1].SeqNr+1 && seq[j-1].ParseErr == "" {
				key := "order:gap"
				if q.SeqNr <= seq[j-1].SeqNr {
					key = "order:duplicate-or-reordered"
				}
				if why := explainMissing(s, o, ref, startNr, seq[j-1].SeqNr+1-startNr); why != "" && key == "order:gap" {
					key = "order:gap:" + why
				}
				fail(key, fmt.Sprintf("%s: number %d follows %d", r.id, q.SeqNr, seq[j-1].SeqNr))
			}
			if !q.BodyRead {
				continue
			}
			if q.PathID >= 0 {
				if timeMode && q.PathID != q.Tfdt {
					fail("path:time", fmt.Sprintf("%s: path says time %d, the body has tfdt %d", r.id, q.PathID, q.Tfdt))
				}
				if !timeMode && q.PathID != q.SeqNr {
					fail("path:number", fmt.Sprintf("%s: path says number %d, the body has sequence number %d", r.id, q.PathID, q.SeqNr))
				}
			}
			if timeMode && r.tab != nil && r.ctype != "audio" {
				n := q.SeqNr - startNr
				if n >= 0 && q.Tfdt != r.tab.LoopS(n) {
					fail("order:time", fmt.Sprintf("%s: segment %d has time %d, expected %d", r.id, q.SeqNr, q.Tfdt, r.tab.LoopS(n)))
				}
			}
			if timeMode && r.tab == nil && r.ctype == "text" {
				// generated subtitles: millisecond timescale, the start of the reference segment rounded to ms
				n := q.SeqNr - startNr
				if n >= 0 {
					want := (2*ref.LoopS(n)*1000 + ref.Timescale) / (2 * ref.Timescale)
					if q.Tfdt != want {
						fail("order:time", fmt.Sprintf("%s: segment %d has time %d ms, the reference segment starts at %d ms", r.id, q.SeqNr, q.Tfdt, want))
					}
				}
			}
			if !q.GetEqual {
				fail("body:differs", fmt.Sprintf("%s %s: body differs from GET %s (status %d) %s", r.id, q.File, q.GetURL, q.GetCode, q.GetNote))
			}
			// lmsg exactly on the last segment of a session with a duration
			isLast := total >= 0 && int64(j) == total-1
			if q.Lmsg != isLast {
				key := "duration:lmsg"
				if !s.Test && isLast {
					key = "duration:lmsg:catch-up"
				}
				fail(key, fmt.Sprintf("%s: segment %d (the %d. of %d) lmsg=%v", r.id, q.SeqNr, j+1, total, q.Lmsg))
			}
			if total >= 0 && int64(j) >= total {
				key := "duration:count"
				if !s.Test {
					key = "duration:count:catch-up"
				}
				fail(key, fmt.Sprintf("%s: segment %d is the %d. of a session limited to %d", r.id, q.SeqNr, j+1, total))
			}
		}
		if initRefused && len(seq) > 0 {
			key := "init-refused:continues"
			if holdIdx >= 0 {
				key = "delete:continues"
			}
			fail(key, "media segments although the session ended in its init phase")
		}
	}
	// O6/O7: final state
	wantStopped := !active || (total >= 0 && sent >= total)
	if s.Test && wantStopped && o.Final != 2 && hungBy == "" {
		key := "stop:state"
		fail(key, fmt.Sprintf("the session should have ended, state %d", o.Final))
	}
	if s.Test && !wantStopped && o.Final != 1 {
		fail("stop:early", fmt.Sprintf("the session ended (state %d) although nothing ended it; report: %v", o.Final, o.Report))
	}
	if hungBy != "" && o.Final != 2 {
		deleted := false
		for _, e := range s.Events {
			deleted = deleted || e.Kind == "delete"
		}
		if deleted {
			fail("hang:"+hungBy+":delete", "DELETE does not stop the session: it is stuck since a receiver answered a chunked PUT with an error")
		}
	}
	c.Sample(map[string]any{"session": s, "final": o.Final, "reps": o.Reps})
	*terms = append(*terms, sessTerm(id, s, o, reps, repIdx, ref, now))
}

// explainMissing classifies a missing segment n (index from availabilityStartTime): if
// int64(float64(E)/float64(ts)*1000) computed here is before the exact availability instant, the
// sender asked 1 ms early.
func explainMissing(s *sessIn, o *sessOut, ref *lib.TLRep, startNr, n int64) string {
	if n < 0 {
		return ""
	}
	E := ref.LoopE(n) + s.Cfg.StartS*ref.Timescale
	want := exactCeilMS(E, ref.Timescale, s.Cfg.AtoMS)
	got := int64((float64(E)/float64(ref.Timescale) - float64(s.Cfg.AtoMS)/1000) * 1000)
	if got < want {
		return "avail-truncated"
	}
	return ""
}

func checkHeaders(fail func(key, what string), s *sessIn, q putObs, reps []repInfo, repIdx map[string]int, init bool) {
	i, ok := repIdx[q.Rep]
	if !ok {
		fail("path:rep", "PUT to an unknown representation: "+q.Path)
		return
	}
	r := reps[i]
	if q.Method != "PUT" {
		fail("header:method", q.Method+" "+q.Path)
	}
	ext := extOf(r.ctype)
	prefix := "/" + s.DestName + "/"
	var want string
	switch {
	case s.Streams:
		want = fmt.Sprintf("%sStreams(%s%s)", prefix, r.id, ext)
		if q.Path != want {
			fail("path:streams", fmt.Sprintf("path %s, expected %s", q.Path, want))
		}
	case init:
		want = fmt.Sprintf("%s%s/init%s", prefix, r.id, ext)
		if q.Path != want {
			fail("path:init", fmt.Sprintf("path %s, expected %s", q.Path, want))
		}
	default:
		if !strings.HasPrefix(q.Path, prefix+r.id+"/") || !strings.HasSuffix(q.Path, ext) || q.PathID < 0 {
			fail("path:media", fmt.Sprintf("path %s, expected %s%s/<id>%s", q.Path, prefix, r.id, ext))
		}
	}
	if q.CT != mimeOf(r.ctype) {
		fail("header:content-type", fmt.Sprintf("%s: Content-Type %q, expected %q", q.Path, q.CT, mimeOf(r.ctype)))
	}
	if q.Ingest != "1.1" {
		fail("header:dash-if-ingest", fmt.Sprintf("%s: DASH-IF-Ingest %q", q.Path, q.Ingest))
	}
	wantAuth := ""
	if s.User != "" && s.Pass != "" {
		wantAuth = basicAuth(s.User, s.Pass)
	}
	if q.Auth != wantAuth {
		fail("header:credentials", fmt.Sprintf("%s: Authorization %q, expected %q", q.Path, q.Auth, wantAuth))
	}
	if !init && q.BodyRead {
		chunked := s.Cfg.ChunkDurMS > 0
		if q.Chunked != chunked {
			fail("header:transfer", fmt.Sprintf("%s: chunked transfer %v, configured %v", q.Path, q.Chunked, chunked))
		}
	}
}

// ---------------------------------------------------------------- Coq terms

func coqKind(ctype string) string {
	switch ctype {
	case "video":
		return "RVideo"
	case "audio":
		return "RAudio"
	}
	return "RText"
}

func coqOptRep(t *lib.TLRep) string {
	if t == nil {
		return "None"
	}
	return "(Some " + lib.CoqRep(t.VodRep) + ")"
}

func coqBools(b []bool) string {
	s := make([]string, len(b))
	for i, v := range b {
		s[i] = lib.Cbool(v)
	}
	return "[" + strings.Join(s, ";") + "]"
}

func coqOptZ(p *int) string {
	if p == nil {
		return "None"
	}
	return fmt.Sprintf("(Some %s)", lib.Zs(int64(*p)))
}

func tcfgOf(s *sessIn) string {
	snr := int64(0)
	if s.Cfg.Snr >= 0 {
		snr = s.Cfg.Snr
	}
	tsbd := int64(60)
	if s.Cfg.Tsbd >= 0 {
		tsbd = s.Cfg.Tsbd
	}
	return coqTcfg(s.Cfg.StartS, snr, tsbd, s.Cfg.AtoMS)
}

func coqEvents(s *sessIn, repIdx map[string]int, nrep int, ref *lib.TLRep, now int64, played int) string {
	var evs []string
	for k, e := range s.Events {
		if played >= 0 && k >= played {
			break // not played (quick tier: steps after the first one that was not taken)
		}
		switch e.Kind {
		case "step":
			refuse := make([]bool, nrep)
			for _, x := range e.Refuse {
				if i, ok := repIdx[x]; ok {
					refuse[i] = true
				}
			}
			evs = append(evs, "CStep "+coqBools(refuse))
		case "delete":
			evs = append(evs, "CDelete")
		case "wait":
			// Real time: the timer fired once during this wait.  The clock readings after the send are
			// reconstructed: with a receiver slower than a segment the first reading is past the next
			// availability time (one catch-up round), the following one is not.
			if e.SlowMS > 0 {
				evs = append(evs, fmt.Sprintf("CTimer [%d; %d]", now+int64(e.SlowMS)+2000, now+int64(e.SlowMS)+2001))
			} else {
				evs = append(evs, "CTimer [0]")
			}
		}
	}
	return "[" + strings.Join(evs, "; ") + "]"
}

func sessTerm(id int, s *sessIn, o *sessOut, reps []repInfo, repIdx map[string]int, ref *lib.TLRep, now int64) string {
	var rs []string
	for _, r := range reps {
		rs = append(rs, fmt.Sprintf("{| ir_kind := %s; ir_tab := %s |}", coqKind(r.ctype), coqOptRep(r.tab)))
	}
	initres := make([]bool, len(reps))
	for i := range initres {
		initres[i] = true
	}
	for _, x := range s.InitRefuse {
		if i, ok := repIdx[x]; ok {
			initres[i] = false
		}
	}
	var inits []int64
	for _, q := range o.Inits {
		inits = append(inits, int64(repIdx[q.Rep]))
	}
	timeMode := s.Cfg.Mode == "tlt"
	cancelInit := "None"
	if i, ok := repIdx[s.HoldInit]; ok && s.HoldInit != "" {
		cancelInit = fmt.Sprintf("(Some %d)", i)
	}
	var evs, rets []string
	for _, eo := range o.Events {
		var ps []string
		for _, q := range eo.Puts {
			pid := q.PathID
			if pid < 0 {
				if timeMode {
					pid = q.Tfdt
				} else {
					pid = q.SeqNr
				}
			}
			ps = append(ps, fmt.Sprintf("(%d, %s, %s)", repIdx[q.Rep], lib.Zs(pid), lib.Cbool(q.Lmsg)))
		}
		evs = append(evs, "["+strings.Join(ps, "; ")+"]")
		rets = append(rets, lib.Cbool(eo.Returned))
	}
	return fmt.Sprintf("CSess %d {| s_reps := [%s]; s_ref := %s; s_loopMS := %d; s_segDurMS := %d; s_cfg := %s; s_timeline := %s; s_test := %s; s_dur := %s; s_chunked := %s; "+
		"s_now := %d; s_initres := %s; s_cancel_init := %s; s_events := %s; o_inits := %s; o_events := [%s]; o_returned := [%s]; o_final := %d |}",
		id, strings.Join(rs, "; "), lib.CoqRep(ref.VodRep), o.LoopMS, o.SegDurMS, tcfgOf(s), lib.Cbool(timeMode), lib.Cbool(s.Test), coqOptZ(s.Dur), lib.Cbool(o.Chunked),
		now, coqBools(initres), cancelInit, coqEvents(s, repIdx, len(reps), ref, now, len(o.Events)), lib.Zlist64(inits), strings.Join(evs, "; "), strings.Join(rets, "; "), o.Final)
}

// sessTermDead builds the case of a session whose process died (no information from the hook):
// the representations are those of the bundled MPD as the harness knows them (video, audio, then
// generated subtitles), which is what NewCmafIngester derives for these assets.
func sessTermDead(id int, s *sessIn, a *lib.TLAsset) string {
	if s.MPD != "Manifest.mpd" && s.MPD != "stream.mpd" {
		return ""
	}
	var rs []string
	var inits []int64
	add := func(kind string, t *lib.TLRep) {
		inits = append(inits, int64(len(rs)))
		rs = append(rs, fmt.Sprintf("{| ir_kind := %s; ir_tab := %s |}", kind, coqOptRep(t)))
	}
	ref := a.Ref()
	if ref == nil {
		return ""
	}
	add("RVideo", ref)
	if a.Rep("A48") != nil && s.MPD == "Manifest.mpd" {
		add("RAudio", a.Rep("A48"))
	}
	for range s.Cfg.TimeSubs {
		add("RText", nil)
	}
	for range s.Cfg.TimeSubsW {
		add("RText", nil)
	}
	segDur := 1000 * (ref.Segs[0].End - ref.Segs[0].Start) / ref.Timescale
	nrep := len(rs)
	initres := make([]bool, nrep)
	for i := range initres {
		initres[i] = true
	}
	return fmt.Sprintf("CSess %d {| s_reps := [%s]; s_ref := %s; s_loopMS := %d; s_segDurMS := %d; s_cfg := %s; s_timeline := %s; s_test := %s; s_dur := %s; s_chunked := %s; "+
		"s_now := %d; s_initres := %s; s_cancel_init := None; s_events := %s; o_inits := %s; o_events := []; o_returned := []; o_final := 3 |}",
		id, strings.Join(rs, "; "), lib.CoqRep(ref.VodRep), a.LoopMS, segDur, tcfgOf(s), lib.Cbool(s.Cfg.Mode == "tlt"), lib.Cbool(s.Test), coqOptZ(s.Dur), lib.Cbool(s.Cfg.ChunkDurMS > 0),
		s.NowMS, coqBools(initres), coqEvents(s, map[string]int{}, nrep, ref, s.NowMS, -1), lib.Zlist64(inits))
}

// ---------------------------------------------------------------- replay

func replay(c *lib.Ctx) error {
	raw, err := lib.LoadReplayInput[json.RawMessage](c.Replay)
	if err != nil {
		return err
	}
	var probe map[string]any
	if err := json.Unmarshal(raw, &probe); err != nil {
		return err
	}
	var terms []string
	switch {
	case probe["asset"] != nil:
		var s sessIn
		if err := json.Unmarshal(raw, &s); err != nil {
			return err
		}
		assets, err := lib.LoadBundledAssets(lib.TestVodRoot)
		if err != nil {
			return err
		}
		if s.VodRoot != "" { // a generated asset: rebuild it for the replay
			s.VodRoot = filepath.Join(c.Out, "vod_c16")
			ao, err := audioOnlyAsset(s.VodRoot)
			if err != nil {
				return err
			}
			assets = append(assets, ao)
			for _, g := range genLayouts() {
				if err := lib.WriteAsset(s.VodRoot, g); err != nil {
					return err
				}
				ga, err := lib.LoadGenAsset(s.VodRoot, g)
				if err != nil {
					return err
				}
				assets = append(assets, ga)
			}
		}
		s.ID = 0
		s.Solo = true
		outs := playAll(c, []sessIn{s})
		for _, a := range assets {
			if a.Path == s.Asset {
				judge(c, &terms, &s, outs[0], a)
			}
		}
	case probe["buf_cap"] != nil:
		var in handIn
		if err := json.Unmarshal(raw, &in); err != nil {
			return err
		}
		obs := playHandover(in)
		want := bytes.Join(handStream(in.Writes), nil)
		if obs.Deadlock != "" {
			c.Fail("0", "handover:deadlock", obs.Deadlock, in)
		} else if !bytes.Equal(obs.Got, want) {
			c.Fail("0", "handover:bytes", "bytes read differ from bytes written", in)
		}
		fmt.Printf("read returns %v, %d bytes\n", obs.Rets, len(obs.Got))
	case probe["segs"] != nil:
		var in availIn
		if err := json.Unmarshal(raw, &in); err != nil {
			return err
		}
		one := []availIn{in}
		replayAvail(c, one)
	}
	c.Res.Evaluations = 1
	for _, f := range c.Res.OracleFailures {
		fmt.Printf("%s: %s\n", f.Key, f.What)
	}
	return nil
}

// probeSessions decides two model variants from what two of the played sessions did (the oracle
// judges those sessions independently of the model):
//   - first number: the session with start number 3 at testNowMS=10000 on 2 s segments (live edge 7):
//     first media number 8 = the start number is honoured, 5 = it is ignored;
//   - catch-up loop: the real-time session with duration 2 s whose first upload takes longer than a
//     segment: does the second (caught-up, last) segment carry lmsg?
func probeSessions(sessions []sessIn, outs map[int]*played) {
	firstMedia := func(p *played) []putObs {
		var out []putObs
		if p == nil || p.out == nil {
			return nil
		}
		for _, e := range p.out.Events {
			for _, q := range e.Puts {
				if !q.IsInit && q.ParseErr == "" && q.BodyRead {
					out = append(out, q)
				}
			}
		}
		return out
	}
	variant.firstHow, variant.catchupHow = "probe session not played, default kept", "probe session not played, default kept"
	for i := range sessions {
		s := &sessions[i]
		p := outs[s.ID]
		switch s.Kind {
		case "r:startnr":
			puts := firstMedia(p)
			switch {
			case p != nil && p.died:
				variant.firstHow = "probe session died, default kept"
			case len(puts) == 0:
				variant.firstHow = "probe session delivered nothing, default kept"
			case puts[0].SeqNr == 8:
				variant.firstFix, variant.firstHow = "true", "snr_3, live edge 7: first number 8"
			case puts[0].SeqNr == 5:
				variant.firstFix, variant.firstHow = "false", "snr_3, live edge 7: first number 5"
			default:
				variant.firstHow = fmt.Sprintf("snr_3, live edge 7: first number %d: neither variant, default kept", puts[0].SeqNr)
			}
		case "r:realtime-catchup":
			puts := firstMedia(p)
			var v []putObs
			for _, q := range puts {
				if q.Rep == "V300" {
					v = append(v, q)
				}
			}
			switch {
			case p != nil && p.died:
				variant.catchupHow = "probe session died, default kept"
			case len(v) < 2:
				variant.catchupHow = fmt.Sprintf("probe session delivered %d video segments, default kept", len(v))
			case v[1].Lmsg && len(v) == 2:
				variant.catchup, variant.catchupHow = "true", "the caught-up last segment carries lmsg, nothing follows"
			case !v[1].Lmsg:
				variant.catchup, variant.catchupHow = "false", "the caught-up last segment has no lmsg"
			default:
				variant.catchupHow = "caught-up segment marked but more follow: neither variant, default kept"
			}
		}
	}
}
