package main

import (
	"fmt"
	"math/rand"
	"os"
	"path/filepath"

	"github.com/Eyevinn/mp4ff/bits"
	"github.com/Eyevinn/mp4ff/mp4"
	"verifharness/lib"
)

// tracks that can be registered at channel level (real init segments of the repository's test data)
var catalog = map[string]c17track{
	"v500":  {Name: "video-500Kbps", Asset: "zero_3.84s/video-500Kbps", Init: "init_org.cmfv", Ext: ".cmfv", Media: "video"},
	"v800":  {Name: "video-800Kbps", Asset: "zero_3.84s/video-800Kbps", Init: "init_org.cmfv", Ext: ".cmfv", Media: "video"},
	"a128":  {Name: "audio-nor-128Kbps", Asset: "zero_3.84s/audio-nor-128Kbps", Init: "init_org.cmfa", Ext: ".cmfa", Media: "audio"},
	"text":  {Name: "text-nor-0", Asset: "zero_3.84s/text-nor-0", Init: "init_org.cmft", Ext: ".cmft", Media: "text"},
	"mlvid": {Name: "video", Asset: "awsMediaLiveScte35/video", Init: "init.cmfv", Ext: ".cmfv", Media: "video"},
	"mlaud": {Name: "audio", Asset: "awsMediaLiveScte35/audio", Init: "init.cmfa", Ext: ".cmfa", Media: "audio"},
}

var initBytes = map[string][]byte{}

func loadInitInfo() error {
	for _, t := range catalog {
		data, err := os.ReadFile(filepath.Join(testdata, t.Asset, t.Init))
		if err != nil {
			return err
		}
		initBytes[t.Asset+"/"+t.Init] = data
		f, err := mp4.DecodeFileSR(bits.NewFixedSliceReader(data))
		if err != nil {
			return err
		}
		tr := f.Init.Moov.Trak
		ts := int64(tr.Mdia.Mdhd.Timescale)
		if t.Media == "text" {
			ts = 1000
		}
		initInfo[t.Asset+"/"+t.Init+"/"+t.Media] = struct {
			btrt  bool
			tsOut int64
		}{tr.Mdia.Minf.Stbl.Stsd.GetBtrt() != nil, ts}
	}
	return nil
}

func tsOf(t c17track) int64 { return initInfo[t.Asset+"/"+t.Init+"/"+t.Media].tsOut }

func tracksOf(keys ...string) []c17track {
	var l []c17track
	for _, k := range keys {
		l = append(l, catalog[k])
	}
	return l
}

// ---------------------------------------------------------------- enumeration helpers

// interleavings of T sequences 0..M-1 that keep each sequence's order
func interleavings(T, M int, f func(order [][2]int)) {
	pos := make([]int, T)
	var cur [][2]int
	var rec func()
	rec = func() {
		if len(cur) == T*M {
			f(append([][2]int{}, cur...))
			return
		}
		for t := 0; t < T; t++ {
			if pos[t] < M {
				cur = append(cur, [2]int{t, pos[t]})
				pos[t]++
				rec()
				pos[t]--
				cur = cur[:len(cur)-1]
			}
		}
	}
	rec()
}

func permutations(items [][2]int, f func(order [][2]int)) {
	n := len(items)
	a := append([][2]int{}, items...)
	var rec func(k int)
	rec = func(k int) {
		if k == n {
			f(append([][2]int{}, a...))
			return
		}
		for i := k; i < n; i++ {
			a[k], a[i] = a[i], a[k]
			rec(k + 1)
			a[k], a[i] = a[i], a[k]
		}
	}
	rec(0)
}

// sample keeps every case if there are at most max, otherwise a random subset of that size
func sample(rng *rand.Rand, all []c17in, max int) []c17in {
	if len(all) <= max {
		return all
	}
	rng.Shuffle(len(all), func(i, j int) { all[i], all[j] = all[j], all[i] })
	return all[:max]
}

// ---------------------------------------------------------------- timing of uploads

// timing gives duration (ms) of segment number nr; dts is the sum of the durations before it plus offsetMS
type timing struct {
	durMS    func(nr int) int64
	offsetMS int64
	firstNr  int
}

func constDur(ms int64) timing { return timing{durMS: func(int) int64 { return ms }} }

func (tm timing) at(nr int, ts int64) (dts, dur int64) {
	t := tm.offsetMS
	for k := tm.firstNr; k < nr; k++ {
		t += tm.durMS(k)
	}
	return t * ts / 1000, tm.durMS(nr) * ts / 1000
}

func chanOps(tracks []c17track, tm timing, order [][2]int) []c17op {
	var ops []c17op
	for i := range tracks {
		ops = append(ops, c17op{K: "init", Name: i})
	}
	for _, u := range order {
		dts, dur := tm.at(u[1], tsOf(tracks[u[0]]))
		ops = append(ops, c17op{K: "recv", Name: u[0], Seq: int64(u[1]), Dts: dts, Dur: dur})
	}
	return ops
}

func genOps(tm timing, order [][2]int) []c17op {
	var ops []c17op
	for _, u := range order {
		dts, dur := tm.at(u[1], 1000)
		ops = append(ops, c17op{K: "gadd", Name: u[0], Seq: int64(u[1]), Dts: dts, Dur: dur})
	}
	return ops
}

// ---------------------------------------------------------------- the case generator

func generate(c *lib.Ctx, rng *rand.Rand) []c17in {
	var ins []c17in
	mult := 1
	if c.Thorough() {
		mult = 10
	}
	add := func(in c17in) { ins = append(ins, in) }

	// ======== kind 0: seqCounters
	scAdds := func(w uint32, nums []int64, gen string) c17in {
		in := c17in{Kind: 0, W: w, Gen: gen}
		for _, n := range nums {
			in.Ops = append(in.Ops, c17op{K: "scadd", N: n})
		}
		return in
	}
	// the four array defects reproduced during design, as fixed regression inputs
	add(scAdds(4, []int64{1, 2, 3, 4, 100}, "regression-jump"))
	add(scAdds(4, []int64{5, 7, 6}, "regression-insert"))
	add(scAdds(8, []int64{5, 7, 9, 6}, "regression-insert"))
	{
		in := scAdds(8, []int64{1, 2, 3, 4, 5}, "regression-shrink")
		in.Ops = append(in.Ops, c17op{K: "scresize", N: 3}, c17op{K: "scadd", N: 6})
		add(in)
	}
	// exhaustive: every sequence of L adds over an alphabet, small windows (includes jumps >= window, inserts, duplicates)
	for _, cfg := range []struct {
		w     uint32
		alpha []int64
		L     int
	}{{2, []int64{1, 2, 3, 4, 5}, 4}, {3, []int64{1, 2, 3, 4, 6}, 4}, {4, []int64{0, 1, 2, 3}, 4}} {
		var all []c17in
		n := len(cfg.alpha)
		tot := 1
		for i := 0; i < cfg.L; i++ {
			tot *= n
		}
		for x := 0; x < tot; x++ {
			var nums []int64
			for i, y := 0, x; i < cfg.L; i, y = i+1, y/n {
				nums = append(nums, cfg.alpha[y%n])
			}
			in := scAdds(cfg.w, nums, "exhaustive-adds")
			in.Ops = append(in.Ops, c17op{K: "scfull", N: 2}, c17op{K: "scnew", N: 2, M: 1})
			all = append(all, in)
		}
		for _, in := range sample(rng, all, 250*mult) {
			add(in)
		}
	}
	// random operation sequences
	for i := 0; i < 350*mult; i++ {
		w := uint32(2 + rng.Intn(7))
		in := c17in{Kind: 0, W: w, Gen: "random-ops"}
		cur := int64(rng.Intn(5))
		if rng.Intn(6) == 0 {
			cur = int64(4294967200) // close to the uint32 limit
		}
		L := 4 + rng.Intn(22)
		for k := 0; k < L; k++ {
			switch r := rng.Intn(100); {
			case r < 45: // next number, sometimes repeated by another track
				cur++
				in.Ops = append(in.Ops, c17op{K: "scadd", N: cur})
				for rng.Intn(2) == 0 {
					in.Ops = append(in.Ops, c17op{K: "scadd", N: cur})
				}
			case r < 60: // older number
				d := int64(rng.Intn(int(w) + 2))
				if cur-d >= 0 {
					in.Ops = append(in.Ops, c17op{K: "scadd", N: cur - d})
				}
			case r < 67: // gap
				cur += int64(2 + rng.Intn(3))
				in.Ops = append(in.Ops, c17op{K: "scadd", N: cur})
			case r < 70: // jump of at least the window
				cur += int64(w) + int64(rng.Intn(2*int(w)))
				in.Ops = append(in.Ops, c17op{K: "scadd", N: cur})
			case r < 78:
				in.Ops = append(in.Ops, c17op{K: "scdrop", N: cur - int64(rng.Intn(int(w)+1))})
			case r < 82:
				in.Ops = append(in.Ops, c17op{K: "scresize", N: int64(2 + rng.Intn(9))})
			case r < 90:
				in.Ops = append(in.Ops, c17op{K: "scfull", N: int64(1 + rng.Intn(3))})
			case r < 96:
				in.Ops = append(in.Ops, c17op{K: "scnew", N: int64(1 + rng.Intn(3)), M: cur - int64(rng.Intn(4))})
			default:
				in.Ops = append(in.Ops, c17op{K: "scmin", N: cur + int64(rng.Intn(5)) - 2})
			}
		}
		for k := range in.Ops {
			if in.Ops[k].N < 0 {
				in.Ops[k].N = 0
			}
			if in.Ops[k].M < 0 {
				in.Ops[k].M = 0
			}
		}
		add(in)
	}

	// ======== kind 1: segDataBuffer
	bAdd := func(seq int64, sh bool) c17op { return c17op{K: "badd", Seq: seq, Dts: seq * 2000, Dur: 2000, Sh: sh} }
	{
		in := c17in{Kind: 1, W: 8, Gen: "regression-shrink"}
		for s := int64(1); s <= 5; s++ {
			in.Ops = append(in.Ops, bAdd(s, false))
		}
		in.Ops = append(in.Ops, c17op{K: "bresize", N: 3}, bAdd(6, false))
		add(in)
	}
	for _, cfg := range []struct {
		w     uint32
		alpha []int64
		L     int
	}{{2, []int64{0, 1, 2, 3, 5}, 4}, {3, []int64{1, 2, 3, 4, 7}, 4}} {
		var all []c17in
		n := len(cfg.alpha)
		tot := 1
		for i := 0; i < cfg.L; i++ {
			tot *= n
		}
		for x := 0; x < tot; x++ {
			in := c17in{Kind: 1, W: cfg.w, Gen: "exhaustive-adds"}
			for i, y := 0, x; i < cfg.L; i, y = i+1, y/n {
				in.Ops = append(in.Ops, bAdd(cfg.alpha[y%n], false))
			}
			in.Ops = append(in.Ops, c17op{K: "bget", N: 3})
			all = append(all, in)
		}
		for _, in := range sample(rng, all, 150*mult) {
			add(in)
		}
	}
	for i := 0; i < 250*mult; i++ {
		w := uint32(1 + rng.Intn(8))
		in := c17in{Kind: 1, W: w, Gen: "random-ops"}
		cur := int64(rng.Intn(4))
		if rng.Intn(8) == 0 {
			cur = 4294967280
		}
		sh := false
		L := 4 + rng.Intn(20)
		for k := 0; k < L; k++ {
			switch r := rng.Intn(100); {
			case r < 50:
				cur++
				if rng.Intn(10) == 0 {
					sh = true
				}
				in.Ops = append(in.Ops, bAdd(cur, sh))
			case r < 58:
				cur += int64(2 + rng.Intn(2*int(w)+2))
				in.Ops = append(in.Ops, bAdd(cur, sh))
			case r < 66:
				d := int64(rng.Intn(4))
				if cur-d >= 0 {
					in.Ops = append(in.Ops, bAdd(cur-d, sh))
				}
			case r < 78:
				n := cur - int64(rng.Intn(int(w)+2))
				if n < 0 {
					n = 0
				}
				in.Ops = append(in.Ops, c17op{K: "bget", N: n})
			case r < 86:
				n := cur - int64(rng.Intn(int(w)+1))
				if n < 0 {
					n = 0
				}
				in.Ops = append(in.Ops, c17op{K: "bdrop", N: n})
			case r < 93:
				in.Ops = append(in.Ops, c17op{K: "bresize", N: int64(1 + rng.Intn(10))})
			default:
				in.Ops = append(in.Ops, c17op{K: "bunshift"})
			}
		}
		add(in)
	}

	// ======== kind 2: segmentTimelineGenerator
	// uploads in a given order; the generator is started at op startAt with window w2; like the channel,
	// generate is called whenever addSegmentData reports a new complete number (the harness cannot know
	// that in advance, so a generate for the uploaded number follows every upload once started: it is
	// rejected by the implementation and the model alike when the number is not complete)
	genCase := func(T int, w, w2 uint32, order [][2]int, startAt int, tm timing, asets [][]int, gen string) c17in {
		in := c17in{Kind: 2, W: w, NTracks: T, Asets: asets, Gen: gen}
		ops := genOps(tm, order)
		for i, o := range ops {
			if i == startAt {
				in.Ops = append(in.Ops, c17op{K: "gstart", N: int64(w2)})
			}
			in.Ops = append(in.Ops, o)
			if i >= startAt {
				in.Ops = append(in.Ops, c17op{K: "ggen", N: o.Seq})
			}
		}
		return in
	}
	asetsFor := func(T int) [][]int {
		switch T {
		case 1:
			return [][]int{{0}}
		case 2:
			return [][]int{{0}, {1}}
		}
		return [][]int{{0, 1}, {2}}
	}
	for _, cfg := range [][2]int{{2, 3}, {2, 4}, {3, 2}, {3, 3}} {
		T, M := cfg[0], cfg[1]
		var all []c17in
		interleavings(T, M, func(order [][2]int) {
			for i := range order {
				order[i][1]++ // numbers from 1 (0 is the "no number" value of the implementation)
			}
			all = append(all, genCase(T, 8, uint32(2+rng.Intn(7)), order, rng.Intn(T+1), constDur(2000), asetsFor(T), fmt.Sprintf("interleave-ordered-%dx%d", T, M)))
		})
		for _, in := range sample(rng, all, 120*mult) {
			add(in)
		}
	}
	for _, cfg := range [][2]int{{2, 2}, {2, 3}, {3, 2}} {
		T, M := cfg[0], cfg[1]
		var items [][2]int
		for t := 0; t < T; t++ {
			for m := 1; m <= M; m++ {
				items = append(items, [2]int{t, m})
			}
		}
		var all []c17in
		permutations(items, func(order [][2]int) {
			all = append(all, genCase(T, 8, uint32(2+rng.Intn(7)), order, rng.Intn(3), constDur(2000), asetsFor(T), fmt.Sprintf("interleave-any-%dx%d", T, M)))
		})
		for _, in := range sample(rng, all, 100*mult) {
			add(in)
		}
	}
	// random operation sequences including resize / drop / start(shifted) at arbitrary points
	for i := 0; i < 300*mult; i++ {
		T := 1 + rng.Intn(3)
		w := uint32(2 + rng.Intn(7))
		in := c17in{Kind: 2, W: w, NTracks: T, Asets: asetsFor(T), Gen: "random-ops"}
		next := make([]int64, T)
		for t := range next {
			next[t] = int64(1 + rng.Intn(3))
		}
		durs := []int64{2000, 2000, 2000, 4000}
		tm := timing{durMS: func(nr int) int64 { return durs[(nr/3)%len(durs)] }}
		sh := false
		started := false
		L := 6 + rng.Intn(24)
		for k := 0; k < L; k++ {
			t := rng.Intn(T)
			switch r := rng.Intn(100); {
			case r < 62:
				dts, dur := tm.at(int(next[t]), 1000)
				in.Ops = append(in.Ops, c17op{K: "gadd", Name: t, Seq: next[t], Dts: dts, Dur: dur, Sh: sh})
				if started {
					in.Ops = append(in.Ops, c17op{K: "ggen", N: next[t]})
				}
				next[t]++
			case r < 70: // a missing segment
				next[t] += int64(1 + rng.Intn(2))
			case r < 74: // a jump
				next[t] += int64(w) + int64(rng.Intn(8))
			case r < 80: // duplicate / old upload
				n := next[t] - 1 - int64(rng.Intn(3))
				if n >= 0 {
					dts, dur := tm.at(int(n), 1000)
					in.Ops = append(in.Ops, c17op{K: "gadd", Name: t, Seq: n, Dts: dts, Dur: dur, Sh: sh})
				}
			case r < 86:
				isSh := rng.Intn(4) == 0
				in.Ops = append(in.Ops, c17op{K: "gstart", N: int64(2 + rng.Intn(9)), Sh: isSh})
				started = true
				sh = isSh
			case r < 91:
				n := next[t] - int64(rng.Intn(4))
				if n < 0 {
					n = 0
				}
				in.Ops = append(in.Ops, c17op{K: "gdrop", N: n})
			case r < 94:
				in.Ops = append(in.Ops, c17op{K: "gresize", N: int64(2 + rng.Intn(9))})
			default:
				in.Ops = append(in.Ops, c17op{K: "ggen", N: next[t] - int64(rng.Intn(3))})
			}
		}
		for k := range in.Ops {
			if in.Ops[k].N < 0 {
				in.Ops[k].N = 0
			}
		}
		add(in)
	}

	// ======== kind 3: channel.receivedSegData with real init segments
	trackSets := [][]string{{"v500", "a128"}, {"v500", "v800"}, {"mlvid", "mlaud"}, {"v500", "v800", "a128"}, {"v500", "a128", "text"}, {"mlvid", "mlaud", "text"}}
	setsOf := func(T int) [][]string {
		var l [][]string
		for _, s := range trackSets {
			if len(s) == T {
				l = append(l, s)
			}
		}
		return l
	}
	tsbds := []uint32{90, 8, 4, 30}
	chanCase := func(keys []string, tsbd uint32, tm timing, order [][2]int, gen string) c17in {
		tr := tracksOf(keys...)
		return c17in{Kind: 3, W: tsbd, Tracks: tr, Ops: chanOps(tr, tm, order), Gen: gen}
	}
	k3 := 0
	pick := func(T int) ([]string, uint32) {
		k3++
		s := setsOf(T)
		return s[k3%len(s)], tsbds[(k3/len(s))%len(tsbds)]
	}
	for _, cfg := range []struct{ T, M, max int }{{2, 3, 60}, {2, 4, 140}, {3, 2, 90}, {3, 3, 220}, {3, 4, 120}} {
		var all []c17in
		if cfg.T*cfg.M <= 9 {
			interleavings(cfg.T, cfg.M, func(order [][2]int) {
				keys, tsbd := pick(cfg.T)
				all = append(all, chanCase(keys, tsbd, constDur(3840), order, fmt.Sprintf("interleave-ordered-%dx%d", cfg.T, cfg.M)))
			})
		} else { // 34650 interleavings: random ones
			for i := 0; i < cfg.max*mult; i++ {
				var order [][2]int
				pos := make([]int, cfg.T)
				for len(order) < cfg.T*cfg.M {
					t := rng.Intn(cfg.T)
					if pos[t] < cfg.M {
						order = append(order, [2]int{t, pos[t]})
						pos[t]++
					}
				}
				keys, tsbd := pick(cfg.T)
				all = append(all, chanCase(keys, tsbd, constDur(3840), order, fmt.Sprintf("interleave-ordered-%dx%d", cfg.T, cfg.M)))
			}
		}
		for _, in := range sample(rng, all, cfg.max*mult) {
			add(in)
		}
	}
	for _, cfg := range []struct{ T, M, max int }{{2, 2, 24}, {2, 3, 160}, {3, 2, 160}, {2, 4, 100}} {
		var items [][2]int
		for t := 0; t < cfg.T; t++ {
			for m := 0; m < cfg.M; m++ {
				items = append(items, [2]int{t, m})
			}
		}
		var all []c17in
		if len(items) <= 6 {
			permutations(items, func(order [][2]int) {
				keys, tsbd := pick(cfg.T)
				all = append(all, chanCase(keys, tsbd, constDur(2000), order, fmt.Sprintf("interleave-any-%dx%d", cfg.T, cfg.M)))
			})
		} else {
			for i := 0; i < cfg.max*mult; i++ {
				order := append([][2]int{}, items...)
				rng.Shuffle(len(order), func(i, j int) { order[i], order[j] = order[j], order[i] })
				keys, tsbd := pick(cfg.T)
				all = append(all, chanCase(keys, tsbd, constDur(2000), order, fmt.Sprintf("interleave-any-%dx%d", cfg.T, cfg.M)))
			}
		}
		for _, in := range sample(rng, all, cfg.max*mult) {
			add(in)
		}
	}
	// two consecutive master segments of duration 0 (empty trun): receivedSegData divides by masterSegDuration
	for _, keys := range [][]string{{"v500"}, {"v500", "a128"}} {
		tr := tracksOf(keys...)
		in := c17in{Kind: 3, W: 30, Tracks: tr, Gen: "regression-zero-duration"}
		for i := range tr {
			in.Ops = append(in.Ops, c17op{K: "init", Name: i})
		}
		in.Ops = append(in.Ops, c17op{K: "recv", Name: 0, Seq: 1, Dts: 0, Dur: 0}, c17op{K: "recv", Name: 0, Seq: 2, Dts: 0, Dur: 0},
			c17op{K: "recv", Name: 0, Seq: 3, Dts: 0, Dur: 0})
		add(in)
	}
	// long runs: tracks at different speeds, gaps, duplicates, jumps, changing durations, late tracks
	for i := 0; i < 260*mult; i++ {
		T := 2 + rng.Intn(2)
		keys, tsbd := pick(T)
		tr := tracksOf(keys...)
		gen := "skewed-run"
		durs := []int64{3840}
		if rng.Intn(3) == 0 {
			durs = []int64{2000, 2000, 2000, 2000, 4000, 2000}
			gen = "skewed-run-varying-durations"
		}
		tm := timing{durMS: func(nr int) int64 { return durs[nr%len(durs)] }}
		M := 6 + rng.Intn(24)
		next := make([]int, T)
		lateStart := make([]int, T) // a late track only starts uploading when the others reached this number
		late := -1
		if rng.Intn(4) == 0 {
			late = 1 + rng.Intn(T-1)
			lateStart[late] = 1 + rng.Intn(5)
			next[late] = lateStart[late]
			gen = "late-track"
		}
		var order [][2]int
		jumpAt := -1
		if rng.Intn(8) == 0 {
			jumpAt = 3 + rng.Intn(M)
			gen = "jump"
		}
		for len(order) < T*M {
			t := rng.Intn(T)
			lead := 0
			for _, n := range next {
				if n > lead {
					lead = n
				}
			}
			if t == late && lead < lateStart[late]+1 {
				continue
			}
			if next[t] > lead-0 && rng.Intn(3) != 0 && t != 0 { // keep the tracks loosely together
				continue
			}
			switch r := rng.Intn(100); {
			case r < 5 && gen != "late-track": // missing segment
				next[t]++
			case r < 9 && next[t] > 0: // duplicate upload
				order = append(order, [2]int{t, next[t] - 1})
			default:
				order = append(order, [2]int{t, next[t]})
				next[t]++
			}
			if len(order) == jumpAt {
				j := 3 + rng.Intn(40)
				for k := range next {
					next[k] += j
				}
			}
		}
		in := c17in{Kind: 3, W: tsbd, Tracks: tr, Ops: chanOps(tr, tm, order), Gen: gen}
		if gen == "late-track" && rng.Intn(2) == 0 {
			// the init segment of the late track also arrives late
			var ops []c17op
			done := false
			for _, o := range in.Ops {
				if o.K == "init" && o.Name == late {
					continue
				}
				if o.K == "recv" && o.Name == late && !done {
					ops = append(ops, c17op{K: "init", Name: late})
					done = true
				}
				ops = append(ops, o)
			}
			in.Ops = ops
			in.Gen = "late-track-late-init"
		}
		add(in)
	}
	// streams whose first segment does not start at a multiple of the duration (time shift) or whose
	// numbers do not equal time/duration (number shift): the channel starts "shifted"
	for i := 0; i < 40*mult; i++ {
		T := 2
		keys, tsbd := pick(T)
		tr := tracksOf(keys...)
		tm := constDur(2000)
		firstNr := 5 + rng.Intn(50)
		tm.firstNr = firstNr
		switch rng.Intn(3) {
		case 0:
			tm.offsetMS = int64(firstNr+3) * 2000 // number shift 3
		case 1:
			tm.offsetMS = int64(firstNr)*2000 + 500 // time shift
		default:
			tm.offsetMS = int64(firstNr) * 2000 // consistent numbers
		}
		var order [][2]int
		for m := 0; m < 6+rng.Intn(6); m++ {
			for t := 0; t < T; t++ {
				order = append(order, [2]int{t, firstNr + m})
			}
		}
		if rng.Intn(2) == 0 {
			rng.Shuffle(len(order)/2, func(i, j int) { order[i], order[j] = order[j], order[i] })
		}
		in := c17in{Kind: 3, W: tsbd, Tracks: tr, Ops: chanOps(tr, tm, order), Gen: "shifted-start"}
		// what the upload callback does once the channel is shifted: numbers are recomputed from the time
		// and items are flagged; the harness flags the uploads of the second half
		for k := len(in.Ops) / 2; k < len(in.Ops); k++ {
			if in.Ops[k].K == "recv" {
				in.Ops[k].Sh = true
			}
		}
		add(in)
	}
	// numbers are uint32 in the implementation: a generated number beyond 2^32 is its wrapped value
	for i := range ins {
		for k := range ins[i].Ops {
			o := &ins[i].Ops[k]
			o.N &= 0xffffffff
			o.M &= 0xffffffff
			o.Seq &= 0xffffffff
		}
	}
	return ins
}
