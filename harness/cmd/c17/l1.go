package main

// L1 for C17: uploads go through the receiver's real router (VerifNewReceiver = NewReceiver +
// setupRouter) as HTTP PUTs of CMAF segments synthesised here from the repository's test data
// (sequence number and baseMediaDecodeTime rewritten); after every upload the channel goroutine is
// drained (hook Sync) and the stored files, manifest_timeline_nr.mpd and the channel state are read
// back.  A panic in the channel goroutine kills the process, so this runs in a child process
// (the same binary with C17_L1_CHILD set) and a death is itself the observation.

import (
	"bufio"
	"bytes"
	"context"
	"encoding/json"
	"encoding/xml"
	"fmt"
	"io"
	"math/rand"
	"net/http"
	"net/http/httptest"
	"os"
	"os/exec"
	"path/filepath"
	"regexp"
	"sort"
	"strconv"
	"strings"
	"syscall"
	"time"

	app "github.com/Dash-Industry-Forum/livesim2/cmd/cmaf-ingest-receiver/app"
	"github.com/Eyevinn/mp4ff/mp4"
	"verifharness/lib"
)

type l1Up struct {
	Init  bool  `json:"init,omitempty"`
	Track int   `json:"track"`
	Seq   int64 `json:"seq,omitempty"`  // mfhd.sequence_number of the upload
	TNr   int64 `json:"tnr,omitempty"`  // baseMediaDecodeTime / segment duration; 0 = Seq (number and time agree: not shifted)
	// NS > 0: the segment is built here instead of patched from the bundled one: Frags fragments, each of
	// NS samples of SD ticks (second fragment: SD2 if set), baseMediaDecodeTime T; Lay says where the sample
	// durations are written: "trun" (per sample), "tfhd" (tfhd.default_sample_duration, none in trun),
	// "trex" (neither: the init segment's trex default applies; the scenario's TrexDur must equal SD)
	NS    int    `json:"ns,omitempty"`
	SD    int64  `json:"sd,omitempty"`
	SD2   int64  `json:"sd2,omitempty"`
	Frags int    `json:"frags,omitempty"`
	T     int64  `json:"t,omitempty"`
	Lay   string `json:"lay,omitempty"`
	// Abort: the connection breaks inside the last fragment of the (multi-fragment) segment: the body
	// delivers the bytes up to there and then fails; the upload must be refused and must not count
	Abort bool `json:"abort,omitempty"`
	// BadTrack: an init upload for a track whose directory cannot be created (a name of 300 bytes)
	BadTrack bool `json:"badtrack,omitempty"`
	// Salt varies the sample payload of a built segment (a re-encoded retry of the same number)
	Salt int `json:"salt,omitempty"`
}

type l1ErrReader struct{}

func (l1ErrReader) Read([]byte) (int, error) { return 0, io.ErrUnexpectedEOF }

// offset inside the last fragment of a segment (a few bytes into its moof box)
func l1CutOffset(body []byte) int {
	f, err := mp4.DecodeFile(bytes.NewReader(body))
	if err != nil || len(f.Segments) == 0 || len(f.Segments[0].Fragments) == 0 {
		return len(body) / 2
	}
	frs := f.Segments[0].Fragments
	return int(frs[len(frs)-1].StartPos) + 30
}

// duration of a built segment in the track's timescale
func (u l1Up) builtDur() int64 {
	d := int64(u.NS) * u.SD
	if u.Frags > 1 {
		sd2 := u.SD2
		if sd2 == 0 {
			sd2 = u.SD
		}
		d += int64(u.Frags-1) * int64(u.NS) * sd2
	}
	return d
}

// number that time/duration gives for this upload
func (u l1Up) timeNr() int64 {
	if u.TNr != 0 {
		return u.TNr
	}
	return u.Seq
}

type l1Scenario struct {
	Kind   int        `json:"kind"` // always 4
	Tracks []c17track `json:"tracks"`
	Tsbd   uint32     `json:"w"`
	Ups    []l1Up     `json:"ups"`
	Gen    string     `json:"generator"`
	Shifted bool      `json:"shifted,omitempty"` // incoming numbers differ from time/duration: the channel starts shifted
	TrexDur int64     `json:"trexdur,omitempty"` // > 0: trex.default_sample_duration of every track's init segment is set to this
	Grid    bool      `json:"grid,omitempty"`    // shifted channel: once started, every stored segment number n starts at n * duration
	// filled in for a failure:
	FailOp  int             `json:"fail_op,omitempty"`
	Precond map[string]bool `json:"precond,omitempty"`
}

type l1Obs struct {
	Status  int        `json:"status"`
	Pub     []int64    `json:"pub"`   // flatPub of the MPD written by this upload ([0] = none)
	Chan    []int64    `json:"chan"`  // flatChan
	Files   [][2]int64 `json:"files"` // (track index, number), sorted
	Content string     `json:"content,omitempty"`
	Stored  int64      `json:"stored"` // number of the media file this upload created or rewrote (-1: none)
	StoredT int64      `json:"stored_t"` // baseMediaDecodeTime in that file
	Hang    bool       `json:"hang,omitempty"` // the upload was not answered within the watchdog time
	Reader  string     `json:"reader,omitempty"` // what went wrong for a reader that had the MPD open across this upload
	PubErr  string     `json:"pub_err,omitempty"`
	Started bool       `json:"started"`
	NrTr    int64      `json:"nrtr"`
	MaxBuf  int64      `json:"maxbuf"`
	Died    string     `json:"died,omitempty"` // set by the parent: panic site
	// for the oracle
	PubFull *pubMPD                         `json:"pubfull,omitempty"`
	Bufs    map[string][]app.VerifItem      `json:"bufs,omitempty"`
	Sizes   map[string][3]int64             `json:"sizes,omitempty"` // nrItems, size, len
	Cnt     [3]int64                        `json:"cnt"`             // nrCounters, windowSize, len
	Latest  int64                           `json:"latest"`
	_       map[string]app.VerifBufferState `json:"-"`
}

const l1Chan = "ch1"

// template segment and duration per track
type l1Template struct {
	data  []byte
	durIn int64 // in the track's own timescale
	tsIn  int64
	tsOut int64
}

var l1Templates = map[string]*l1Template{}

func l1Load(t c17track) (*l1Template, error) {
	key := t.Asset
	if tp, ok := l1Templates[key]; ok {
		return tp, nil
	}
	data, err := os.ReadFile(filepath.Join(testdata, t.Asset, "0"+t.Ext))
	if err != nil {
		return nil, err
	}
	f, err := mp4.DecodeFile(bytes.NewReader(data))
	if err != nil {
		return nil, err
	}
	fi, err := mp4.DecodeFile(bytes.NewReader(initBytes[t.Asset+"/"+t.Init]))
	if err != nil {
		return nil, err
	}
	moof := f.Segments[0].Fragments[0].Moof
	def := fi.Init.Moov.Mvex.Trex.DefaultSampleDuration
	if moof.Traf.Tfhd.DefaultSampleDuration != 0 {
		def = moof.Traf.Tfhd.DefaultSampleDuration
	}
	tp := &l1Template{data: data, durIn: int64(moof.Traf.Trun.Duration(def)),
		tsIn: int64(fi.Init.Moov.Trak.Mdia.Mdhd.Timescale), tsOut: tsOf(t)}
	l1Templates[key] = tp
	return tp, nil
}

// synthesise segment number seq of a track: the template with mfhd.sequence_number and tfdt rewritten
func l1Segment(tp *l1Template, seq, timeNr int64) ([]byte, error) {
	f, err := mp4.DecodeFile(bytes.NewReader(tp.data))
	if err != nil {
		return nil, err
	}
	seg := f.Segments[0]
	for _, fr := range seg.Fragments {
		fr.Moof.Mfhd.SequenceNumber = uint32(seq)
		fr.Moof.Traf.Tfdt.SetBaseMediaDecodeTime(uint64(timeNr * tp.durIn))
	}
	var buf bytes.Buffer
	if err := seg.Encode(&buf); err != nil {
		return nil, err
	}
	return buf.Bytes(), nil
}

// init segment of a track, with trex.default_sample_duration patched if the scenario asks for it
func l1Init(sc l1Scenario, t c17track) ([]byte, error) {
	data := initBytes[t.Asset+"/"+t.Init]
	if sc.TrexDur == 0 {
		return data, nil
	}
	f, err := mp4.DecodeFile(bytes.NewReader(data))
	if err != nil {
		return nil, err
	}
	f.Init.Moov.Mvex.Trex.DefaultSampleDuration = uint32(sc.TrexDur)
	var buf bytes.Buffer
	if err := f.Init.Encode(&buf); err != nil {
		return nil, err
	}
	return buf.Bytes(), nil
}

// build a media segment from scratch (see l1Up)
func l1Build(t c17track, u l1Up) ([]byte, error) {
	fi, err := mp4.DecodeFile(bytes.NewReader(initBytes[t.Asset+"/"+t.Init]))
	if err != nil {
		return nil, err
	}
	trackID := fi.Init.Moov.Trak.Tkhd.TrackID
	seg := mp4.NewMediaSegment()
	if u.Lay != "trun" {
		seg.EncOptimize = mp4.OptimizeTrun
	}
	frags := u.Frags
	if frags == 0 {
		frags = 1
	}
	tm := uint64(u.T)
	for k := 0; k < frags; k++ {
		sd := u.SD
		if k > 0 && u.SD2 != 0 {
			sd = u.SD2
		}
		frag, err := mp4.CreateFragment(uint32(u.Seq), trackID)
		if err != nil {
			return nil, err
		}
		for i := 0; i < u.NS; i++ {
			frag.AddFullSample(mp4.FullSample{
				Sample:     mp4.Sample{Flags: mp4.SyncSampleFlags, Dur: uint32(sd), Size: 4},
				DecodeTime: tm,
				Data:       []byte{byte(u.Salt), byte(u.Salt >> 8), byte(k), byte(i)},
			})
			tm += uint64(sd)
		}
		seg.AddFragment(frag)
	}
	var buf bytes.Buffer
	if err := seg.Encode(&buf); err != nil {
		return nil, err
	}
	f, err := mp4.DecodeFile(bytes.NewReader(buf.Bytes()))
	if err != nil {
		return nil, err
	}
	for _, fr := range f.Segments[0].Fragments {
		traf := fr.Moof.Traf
		switch u.Lay {
		case "tfhd":
			if traf.Trun.HasSampleDuration() || traf.Tfhd.DefaultSampleDuration == 0 {
				return nil, fmt.Errorf("l1Build: expected the sample duration in tfhd")
			}
		case "trex":
			traf.Tfhd.DefaultSampleDuration = 0
			traf.Tfhd.Flags &^= 0x000008
			if traf.Trun.HasSampleDuration() {
				return nil, fmt.Errorf("l1Build: expected no sample durations in trun")
			}
		}
	}
	if u.Lay == "trex" {
		buf.Reset()
		if err := f.Segments[0].Encode(&buf); err != nil {
			return nil, err
		}
	}
	return buf.Bytes(), nil
}

// the item the channel goroutine receives for that upload (what the model is driven by)
func l1Item(tp *l1Template, seq int64) (dts, dur int64) {
	t := seq * tp.durIn
	d := tp.durIn
	if tp.tsOut != tp.tsIn {
		t = t * tp.tsOut / tp.tsIn
		// the receiver scales the default sample duration / every sample duration and sums: for the
		// templates used (constant sample duration) that is nrSamples * (sampleDur*tsOut/tsIn); computed in l1Dur
	}
	return t, d
}

// ---------------------------------------------------------------- child

func l1ChildMain(path string) {
	var req struct {
		Scenarios []l1Scenario `json:"scenarios"`
		Start     int          `json:"start"`
	}
	data, err := os.ReadFile(path)
	if err != nil {
		fmt.Fprintln(os.Stderr, err)
		os.Exit(3)
	}
	if err := json.Unmarshal(data, &req); err != nil {
		fmt.Fprintln(os.Stderr, err)
		os.Exit(3)
	}
	if err := loadInitInfo(); err != nil {
		fmt.Fprintln(os.Stderr, err)
		os.Exit(3)
	}
	out := bufio.NewWriter(os.Stdout)
	defer out.Flush()
	for si := req.Start; si < len(req.Scenarios); si++ {
		fmt.Fprintf(out, "S %d\n", si)
		out.Flush()
		l1RunScenario(req.Scenarios[si], func(o l1Obs) {
			b, _ := json.Marshal(o)
			fmt.Fprintf(out, "O %s\n", b)
			out.Flush()
		})
		fmt.Fprintf(out, "E %d\n", si)
		out.Flush()
	}
}

func l1RunScenario(sc l1Scenario, emit func(l1Obs)) {
	root := ""
	if st, err := os.Stat("/dev/shm"); err == nil && st.IsDir() {
		root = "/dev/shm"
	}
	storage, err := os.MkdirTemp(root, "c17l1-")
	if err != nil {
		panic(err)
	}
	defer os.RemoveAll(storage)
	ctx, cancel := context.WithCancel(context.Background())
	defer cancel()
	rcv, err := app.VerifNewReceiver(ctx, storage, "/upload", uint64(sc.Tsbd), nil)
	if err != nil {
		panic(err)
	}
	var names []string
	for _, t := range sc.Tracks {
		names = append(names, t.Name)
	}
	chDir := filepath.Join(storage, l1Chan)
	prevMPD := ""
	// a reader of manifest_timeline_nr.mpd that overlaps the next publication: it opens the file and reads the
	// first bytes before an upload, and the rest after it
	var heldF *os.File
	var heldFirst, heldFull []byte
	var heldIno uint64
	mpdPath := filepath.Join(chDir, "manifest_timeline_nr.mpd")
	defer func() {
		if heldF != nil {
			heldF.Close()
		}
	}()
	for _, u := range sc.Ups {
		t := sc.Tracks[u.Track]
		var body []byte
		var url string
		if u.BadTrack {
			body = initBytes[t.Asset+"/"+t.Init]
			url = fmt.Sprintf("/upload/%s/%s/init%s", l1Chan, strings.Repeat("x", 300), t.Ext)
		} else if u.Init {
			var err error
			body, err = l1Init(sc, t)
			if err != nil {
				panic(err)
			}
			url = fmt.Sprintf("/upload/%s/%s/init%s", l1Chan, t.Name, t.Ext)
		} else if u.NS > 0 {
			var err error
			body, err = l1Build(t, u)
			if err != nil {
				panic(err)
			}
			url = fmt.Sprintf("/upload/%s/%s/%d%s", l1Chan, t.Name, u.Seq, t.Ext)
		} else {
			tp, err := l1Load(t)
			if err != nil {
				panic(err)
			}
			body, err = l1Segment(tp, u.Seq, u.timeNr())
			if err != nil {
				panic(err)
			}
			url = fmt.Sprintf("/upload/%s/%s/%d%s", l1Chan, t.Name, u.Seq, t.Ext)
		}
		before := map[string]int64{}
		if ents, err := os.ReadDir(filepath.Join(chDir, t.Name)); err == nil {
			for _, e := range ents {
				if inf, err := e.Info(); err == nil {
					before[e.Name()] = inf.ModTime().UnixNano()
				}
			}
		}
		var rd io.Reader = bytes.NewReader(body)
		if u.Abort {
			rd = io.MultiReader(bytes.NewReader(body[:l1CutOffset(body)]), l1ErrReader{})
		}
		req := httptest.NewRequest(http.MethodPut, url, rd)
		req.ContentLength = int64(len(body))
		req.Header.Set("Content-Length", strconv.Itoa(len(body)))
		rr := httptest.NewRecorder()
		done := make(chan struct{})
		go func() { rcv.Router.ServeHTTP(rr, req); close(done) }()
		select {
		case <-done:
		case <-time.After(5 * time.Second):
			emit(l1Obs{Hang: true, Stored: -1})
			return // the receiver no longer answers: the scenario ends here
		}
		rcv.Sync(l1Chan)
		o := l1Obs{Status: rr.Code}
		pub, perr := readPub(chDir, &prevMPD)
		if perr != nil {
			o.PubErr = perr.Error()
		}
		o.Pub = flatPub(pub)
		o.PubFull = pub
		if heldF != nil {
			rest, _ := io.ReadAll(heldF)
			heldF.Close()
			heldF = nil
			doc := append(append([]byte{}, heldFirst...), rest...)
			switch {
			case !bytes.Equal(doc, heldFull):
				o.Reader = fmt.Sprintf("a reader that opened the MPD (%d bytes) before this upload and read the rest after it got %d bytes that are not the document it opened", len(heldFull), len(doc))
				if err := xmlWellFormed(doc); err != nil {
					o.Reader += ": not a complete XML document (" + err.Error() + ")"
				}
			case xmlWellFormed(doc) != nil:
				o.Reader = "the MPD at the published path is not a complete XML document: " + xmlWellFormed(doc).Error()
			}
			if st, err := os.Stat(mpdPath); err == nil && pub != nil {
				if sys, ok := st.Sys().(*syscall.Stat_t); ok && sys.Ino == heldIno && o.Reader == "" {
					o.Reader = "a new MPD was published into the same file (inode) that readers have open: it was rewritten in place, not replaced"
				}
			}
		}
		if full, err := os.ReadFile(mpdPath); err == nil {
			if f, err := os.Open(mpdPath); err == nil {
				heldF, heldFull = f, full
				n := 64
				if n > len(full) {
					n = len(full)
				}
				heldFirst = make([]byte, n)
				if _, err := io.ReadFull(f, heldFirst); err != nil {
					heldFirst = heldFirst[:0]
				}
				if st, err := f.Stat(); err == nil {
					if sys, ok := st.Sys().(*syscall.Stat_t); ok {
						heldIno = sys.Ino
					}
				}
			}
		}
		if st, ok := rcv.ChannelState(l1Chan); ok {
			o.Chan = flatChan(names, st)
			o.Started = st.Gen.Started
			o.NrTr = int64(st.Gen.NrTracks)
			o.MaxBuf = int64(st.MaxNrBufSegs)
			o.Latest = int64(st.Gen.LatestSeqNr)
			o.Cnt = [3]int64{int64(st.Gen.Counters.NrCounters), int64(st.Gen.Counters.WindowSize), int64(st.Gen.Counters.Len)}
			o.Bufs = map[string][]app.VerifItem{}
			o.Sizes = map[string][3]int64{}
			for n, b := range st.Gen.Buffers {
				o.Bufs[n] = liveItems(b)
				o.Sizes[n] = [3]int64{int64(b.NrItems), int64(b.Size), int64(b.Len)}
			}
		}
		// stored files
		for ti, tr := range sc.Tracks {
			ents, _ := os.ReadDir(filepath.Join(chDir, tr.Name))
			for _, e := range ents {
				base := strings.TrimSuffix(e.Name(), tr.Ext)
				if n, err := strconv.ParseInt(base, 10, 64); err == nil {
					o.Files = append(o.Files, [2]int64{int64(ti), n})
				}
			}
		}
		sort.Slice(o.Files, func(i, j int) bool {
			if o.Files[i][0] != o.Files[j][0] {
				return o.Files[i][0] < o.Files[j][0]
			}
			return o.Files[i][1] < o.Files[j][1]
		})
		// which media file did this upload create (or rewrite), and what is in it
		o.Stored = -1
		if !u.Init && rr.Code == http.StatusOK {
			var created []string
			if ents, err := os.ReadDir(filepath.Join(chDir, t.Name)); err == nil {
				for _, e := range ents {
					base := strings.TrimSuffix(e.Name(), t.Ext)
					if _, err := strconv.ParseInt(base, 10, 64); err != nil {
						continue
					}
					inf, err := e.Info()
					if err != nil {
						continue
					}
					if old, ok := before[e.Name()]; !ok || old != inf.ModTime().UnixNano() {
						created = append(created, e.Name())
					}
				}
			}
			if len(created) == 0 && !sc.Shifted {
				if _, ok := before[fmt.Sprintf("%d%s", u.Seq, t.Ext)]; ok {
					created = []string{fmt.Sprintf("%d%s", u.Seq, t.Ext)} // a duplicate upload rewrote its file within the clock tick
				}
			}
			switch {
			case len(created) != 1:
				o.Content = fmt.Sprintf("the upload created or rewrote %d media files of its track (%v), expected exactly one", len(created), created)
			default:
				nr, _ := strconv.ParseInt(strings.TrimSuffix(created[0], t.Ext), 10, 64)
				o.Stored = nr
				got, err := os.ReadFile(filepath.Join(chDir, t.Name, created[0]))
				if err != nil {
					o.Content = "stored segment cannot be read: " + err.Error()
					break
				}
				f, err := mp4.DecodeFile(bytes.NewReader(got))
				if err != nil || len(f.Segments) != 1 || int64(f.Segments[0].Fragments[0].Moof.Mfhd.SequenceNumber) != nr {
					o.Content = fmt.Sprintf("stored file %s does not decode to a segment with that sequence number", created[0])
					break
				}
				o.StoredT = int64(f.Segments[0].Fragments[0].Moof.Traf.Tfdt.BaseMediaDecodeTime())
				if !sc.Shifted && nr != u.Seq {
					o.Content = fmt.Sprintf("segment %d was stored as %s", u.Seq, created[0])
				}
				if t.Media != "text" && nr == u.Seq && !sc.Shifted && !bytes.Equal(got, body) {
					o.Content = fmt.Sprintf("stored file differs from the uploaded bytes (%d vs %d bytes)", len(got), len(body))
				}
				if nr != u.Seq || sc.Shifted {
					// renumbered or moved in time: the media payload must be the uploaded one
					fu, err := mp4.DecodeFile(bytes.NewReader(body))
					if err == nil && len(f.Segments[0].Fragments) > 0 && len(fu.Segments[0].Fragments) > 0 {
						a, b := f.Segments[0].Fragments[0].Mdat, fu.Segments[0].Fragments[0].Mdat
						if a != nil && b != nil && !bytes.Equal(a.Data, b.Data) {
							o.Content = "renumbered segment does not carry the uploaded media data"
						}
					}
				}
			}
		}
		emit(o)
	}
}

func xmlWellFormed(doc []byte) error {
	d := xml.NewDecoder(bytes.NewReader(doc))
	n := 0
	for {
		tok, err := d.Token()
		if err == io.EOF {
			if n == 0 {
				return fmt.Errorf("empty document")
			}
			return nil
		}
		if err != nil {
			return err
		}
		if _, ok := tok.(xml.StartElement); ok {
			n++
		}
	}
}

// ---------------------------------------------------------------- parent

var reAppFrame = regexp.MustCompile(`cmaf-ingest-receiver/app\.([A-Za-z0-9_().*]+)\(`)

// diedSite turns the stderr of a dead child into the same "function:kind" the in-process recover gives
func diedSite(stderr string) string {
	kind := "other"
	switch {
	case strings.Contains(stderr, "index out of range"):
		kind = "index"
	case strings.Contains(stderr, "slice bounds out of range"):
		kind = "slice"
	case strings.Contains(stderr, "nil pointer dereference"):
		kind = "nil"
	case strings.Contains(stderr, "divide by zero"):
		kind = "div"
	}
	i := strings.Index(stderr, "goroutine ")
	if i < 0 {
		return "unknown:" + kind
	}
	for _, m := range reAppFrame.FindAllStringSubmatch(stderr[i:], -1) {
		fn := strings.NewReplacer("(*", "", ")", "").Replace(m[1])
		if strings.Contains(fn, "Verif") || strings.Contains(fn, "verif") {
			continue
		}
		return fn + ":" + kind
	}
	return "unknown:" + kind
}

// l1RunAll runs the scenarios in child processes; a child that dies is restarted behind the scenario it died in
func l1RunAll(c *lib.Ctx, scs []l1Scenario) ([][]l1Obs, error) {
	outs := make([][]l1Obs, len(scs))
	exe, err := os.Executable()
	if err != nil {
		return nil, err
	}
	start := 0
	deaths := 0
	for start < len(scs) {
		reqPath := filepath.Join(c.Out, "l1_request.json")
		b, _ := json.Marshal(map[string]any{"scenarios": scs, "start": start})
		if err := os.WriteFile(reqPath, b, 0o644); err != nil {
			return nil, err
		}
		cmd := exec.Command(exe)
		cmd.Env = append(os.Environ(), "C17_L1_CHILD="+reqPath)
		var so, se bytes.Buffer
		cmd.Stdout, cmd.Stderr = &so, &se
		var runErr error
		if err := cmd.Start(); err != nil {
			return nil, err
		}
		waitCh := make(chan error, 1)
		go func() { waitCh <- cmd.Wait() }()
		select {
		case runErr = <-waitCh:
		case <-time.After(180 * time.Second):
			_ = cmd.Process.Kill()
			runErr = <-waitCh
		}
		cur := -1
		ended := -1
		scan := bufio.NewScanner(&so)
		scan.Buffer(make([]byte, 1<<20), 1<<26)
		for scan.Scan() {
			line := scan.Text()
			switch {
			case strings.HasPrefix(line, "S "):
				cur, _ = strconv.Atoi(line[2:])
			case strings.HasPrefix(line, "O "):
				var o l1Obs
				if err := json.Unmarshal([]byte(line[2:]), &o); err != nil {
					return nil, err
				}
				outs[cur] = append(outs[cur], o)
			case strings.HasPrefix(line, "E "):
				ended, _ = strconv.Atoi(line[2:])
			}
		}
		if runErr == nil {
			break
		}
		if cur < 0 || cur == ended {
			return nil, fmt.Errorf("L1 child failed outside a scenario: %v\n%s", runErr, tail(se.String(), 1500))
		}
		// died inside scenario cur, while processing the upload after the observations received so far
		deaths++
		outs[cur] = append(outs[cur], l1Obs{Died: diedSite(se.String())})
		start = cur + 1
	}
	c.Res.Notes = append(c.Res.Notes, fmt.Sprintf("L1: %d scenarios through the receiver's router in child processes, %d ended with the death of the process", len(scs), deaths))
	return outs, nil
}

func tail(s string, n int) string {
	if len(s) > n {
		return s[len(s)-n:]
	}
	return s
}

// ---------------------------------------------------------------- scenarios

func l1Generate(c *lib.Ctx, rng *rand.Rand) []l1Scenario {
	var scs []l1Scenario
	sets := [][]string{{"v500", "a128"}, {"v500", "v800"}, {"v500", "v800", "a128"}, {"v500", "a128", "text"}}
	tsbds := []uint32{30, 8, 16, 60}
	n := 0
	mk := func(keys []string, tsbd uint32, order [][2]int, gen string) l1Scenario {
		sc := l1Scenario{Kind: 4, Tracks: tracksOf(keys...), Tsbd: tsbd, Gen: gen}
		for i := range keys {
			sc.Ups = append(sc.Ups, l1Up{Init: true, Track: i})
		}
		for _, u := range order {
			sc.Ups = append(sc.Ups, l1Up{Track: u[0], Seq: int64(u[1])})
		}
		return sc
	}
	pick := func(T int) ([]string, uint32) {
		n++
		var l [][]string
		for _, s := range sets {
			if len(s) == T {
				l = append(l, s)
			}
		}
		return l[n%len(l)], tsbds[(n/len(l))%len(tsbds)]
	}
	mult := 1
	if c.Thorough() {
		mult = 8
	}
	// round robin (what the sender does), from number 1
	for _, T := range []int{2, 3} {
		for _, M := range []int{4, 12} {
			keys, tsbd := pick(T)
			var order [][2]int
			for m := 1; m <= M; m++ {
				for t := 0; t < T; t++ {
					order = append(order, [2]int{t, m})
				}
			}
			scs = append(scs, mk(keys, tsbd, order, "round-robin"))
		}
	}
	// all order-preserving interleavings of 2 tracks x 3 segments
	interleavings(2, 3, func(order [][2]int) {
		for i := range order {
			order[i][1]++
		}
		keys, tsbd := pick(2)
		scs = append(scs, mk(keys, tsbd, order, "interleave-ordered-2x3"))
	})
	// shifted channels: the incoming numbers (8090..) differ from time/duration (449002889..) as in the bundled
	// zero_3.84s input; small windows, runs longer than the window
	for _, cfg := range []struct {
		keys []string
		tsbd uint32
		M    int
	}{{[]string{"v500", "v800"}, 4, 12}, {[]string{"v500", "a128"}, 8, 10}, {[]string{"v500", "v800", "a128"}, 4, 9}} {
		sc := l1Scenario{Kind: 4, Tracks: tracksOf(cfg.keys...), Tsbd: cfg.tsbd, Gen: "shifted-round-robin", Shifted: true}
		for i := range cfg.keys {
			sc.Ups = append(sc.Ups, l1Up{Init: true, Track: i})
		}
		for m := 0; m < cfg.M; m++ {
			for t := range cfg.keys {
				sc.Ups = append(sc.Ups, l1Up{Track: t, Seq: int64(8090 + m), TNr: int64(449002889 + m)})
			}
		}
		scs = append(scs, sc)
	}
	// segments built here in the three places a sample duration can be written (trun, tfhd default, trex default),
	// with sample count / sample duration changing from segment to segment and between the fragments of a segment
	for k := 0; k < 6*mult; k++ {
		keys := [][]string{{"v500"}, {"v500", "a128"}}[k%2]
		sc := l1Scenario{Kind: 4, Tracks: tracksOf(keys...), Tsbd: []uint32{60, 30, 16}[k%3], Gen: "built-layouts"}
		const D = 36000 // ticks per segment of the first segments (time = number * D: not shifted)
		if k%3 == 2 {
			sc.TrexDur = 720
		}
		for i := range keys {
			sc.Ups = append(sc.Ups, l1Up{Init: true, Track: i})
		}
		first := int64(100 + rng.Intn(900))
		tm := make([]int64, len(keys))
		for t := range tm {
			tm[t] = first * D
		}
		M := 7 + rng.Intn(5)
		for m := 0; m < M; m++ {
			for t := range keys {
				u := l1Up{Track: t, Seq: first + int64(m), T: tm[t], Frags: 1}
				lays := []string{"tfhd", "tfhd", "trun"}
				if sc.TrexDur > 0 {
					lays = []string{"trex", "tfhd", "trex", "trun"}
				}
				u.Lay = lays[rng.Intn(len(lays))]
				// sample layouts with the same total D, and (later in the run) other totals
				opts := [][2]int64{{50, 720}, {60, 600}, {25, 1440}, {30, 1200}}
				if m >= 3 && rng.Intn(4) == 0 {
					opts = [][2]int64{{50, 600}, {40, 720}, {10, 1440}}
				}
				o := opts[rng.Intn(len(opts))]
				if m < 3 {
					o = opts[(k/2)%2] // the first segments alike, so that the channel starts
				}
				if u.Lay == "trex" {
					o = [2]int64{D / sc.TrexDur, sc.TrexDur}
				}
				u.NS, u.SD = int(o[0]), o[1]
				if m >= 3 && u.Lay == "tfhd" && rng.Intn(3) == 0 { // two fragments with different defaults
					u.Frags = 2
					u.NS /= 2
					u.SD2 = u.SD * 2
					if rng.Intn(2) == 0 {
						u.SD2 = u.SD
					}
				}
				tm[t] += u.builtDur()
				sc.Ups = append(sc.Ups, u)
			}
		}
		scs = append(scs, sc)
	}
	// multi-fragment segments; now and then the connection breaks inside the last fragment and the segment is sent again
	for k := 0; k < 4*mult; k++ {
		keys := [][]string{{"v500", "a128"}, {"v500", "v800"}}[k%2]
		sc := l1Scenario{Kind: 4, Tracks: tracksOf(keys...), Tsbd: 60, Gen: "aborted-then-repeated"}
		const D = 36000
		for i := range keys {
			sc.Ups = append(sc.Ups, l1Up{Init: true, Track: i})
		}
		first := int64(10 + rng.Intn(90))
		for m := int64(0); m < 8; m++ {
			for t := range keys {
				u := l1Up{Track: t, Seq: first + m, T: (first + m) * D, Frags: 3, NS: 20, SD: 600, Lay: []string{"trun", "tfhd"}[rng.Intn(2)]}
				if m >= 2 && rng.Intn(3) == 0 {
					a := u
					a.Abort = true
					sc.Ups = append(sc.Ups, a)
				}
				sc.Ups = append(sc.Ups, u)
			}
		}
		scs = append(scs, sc)
	}
	// shifted channel with audio whose segments start on AAC frame boundaries (1024 ticks at 48 kHz), i.e. up to
	// one frame before or after the nominal time number * duration
	for k := 0; k < 2*mult; k++ {
		sc := l1Scenario{Kind: 4, Tracks: tracksOf("v500", "a128"), Tsbd: []uint32{16, 60}[k%2], Gen: "shifted-frame-aligned-audio", Shifted: true}
		vts, ats := tsOf(sc.Tracks[0]), tsOf(sc.Tracks[1])
		vD := 2 * vts // 2 s segments
		aD := 2 * ats
		for i := range sc.Tracks {
			sc.Ups = append(sc.Ups, l1Up{Init: true, Track: i})
		}
		base := int64(449002889 + rng.Intn(1000))
		frame := int64(1024)
		aStart := func(n int64) int64 { // nearest frame boundary at or before/after the nominal start
			nom := n * aD
			lo := nom / frame * frame
			if (n+int64(k))%2 == 0 || lo == nom {
				return lo
			}
			return lo + frame
		}
		for m := int64(0); m < 10; m++ {
			sc.Ups = append(sc.Ups, l1Up{Track: 0, Seq: 8090 + m, TNr: base + m, T: (base + m) * vD, NS: 50, SD: vD / 50, Frags: 1, Lay: "trun"})
			t0, t1 := aStart(base+m), aStart(base+m+1)
			sc.Ups = append(sc.Ups, l1Up{Track: 1, Seq: 8090 + m, TNr: base + m, T: t0, NS: int((t1 - t0) / frame), SD: frame, Frags: 1, Lay: "tfhd"})
		}
		scs = append(scs, sc)
	}
	// an encoder that numbers its segments ceil(time/duration) while its times are not multiples of the duration:
	// no number shift but a time shift (all stored times are moved onto the grid); also with epoch-based times at 90 kHz
	for k, key := range []string{"v500", "mlvid"} {
		tr := tracksOf(key)
		ts := tsOf(tr[0])
		D := 2 * ts
		sc := l1Scenario{Kind: 4, Tracks: tr, Tsbd: 16, Gen: "time-shifted", Shifted: true, Grid: true}
		sc.Ups = append(sc.Ups, l1Up{Init: true, Track: 0})
		n0 := int64(1000 + rng.Intn(1000))
		if k == 1 {
			n0 = 1760000000/2 + int64(rng.Intn(1000)) // seconds since 1970 / 2 s
		}
		x := ts/4 + int64(rng.Intn(int(ts/4))) // the segments start x ticks before the grid
		for m := int64(0); m < 9; m++ {
			sc.Ups = append(sc.Ups, l1Up{Track: 0, Seq: n0 + m, TNr: n0 + m, T: (n0+m)*D - x, NS: 50, SD: D / 50, Frags: 1, Lay: "trun"})
		}
		scs = append(scs, sc)
	}
	// an upload that fails for a file-system reason (track directory cannot be created) between ordinary uploads
	for k := 0; k < 2; k++ {
		keys := [][]string{{"v500", "a128"}, {"v500", "v800"}}[k]
		sc := l1Scenario{Kind: 4, Tracks: tracksOf(keys...), Tsbd: 30, Gen: "bad-track-directory"}
		for i := range keys {
			sc.Ups = append(sc.Ups, l1Up{Init: true, Track: i})
		}
		for m := int64(1); m <= 6; m++ {
			if m == int64(1+2*k) || m == 5 {
				sc.Ups = append(sc.Ups, l1Up{BadTrack: true})
			}
			for t := range keys {
				sc.Ups = append(sc.Ups, l1Up{Track: t, Seq: m})
			}
		}
		scs = append(scs, sc)
	}
	// numbers that are uploaded again with other content (an encoder that restarts, a re-encoded retry): shorter, longer,
	// of equal length with other bytes; same time and duration. HEAD answers 200, replaces the file and keeps the
	// first upload's entry in the track's buffer: the stored file must be the last accepted upload
	for k := 0; k < 5*mult; k++ {
		keys := [][]string{{"v500", "a128"}, {"v500", "v800"}, {"v500"}}[k%3]
		sc := l1Scenario{Kind: 4, Tracks: tracksOf(keys...), Tsbd: 60, Gen: "reupload-other-content"}
		otherDur := k%5 >= 3 // the retry is a different cut of the stream: other duration as well
		if otherDur {
			sc.Gen = "reupload-other-duration"
		}
		const D = 36000
		for i := range keys {
			sc.Ups = append(sc.Ups, l1Up{Init: true, Track: i})
		}
		first := int64(10 + rng.Intn(90))
		lay := func(v int) (int, int64) { // same duration, different size
			return []int{50, 20, 100, 60}[v%4], []int64{720, 1800, 360, 600}[v%4]
		}
		for m := int64(0); m < 8; m++ {
			for t := range keys {
				ns, sd := lay(int(m) + t)
				sc.Ups = append(sc.Ups, l1Up{Track: t, Seq: first + m, T: (first + m) * D, Frags: 1 + int(m)%2, NS: ns / (1 + int(m)%2), SD: sd, Lay: "trun"})
				if m >= 1 && rng.Intn(2) == 0 {
					back := first + m - int64(rng.Intn(int(m)+1)) // this number or an earlier one again
					v := rng.Intn(4)
					ns2, sd2 := lay(v)
					if otherDur {
						ns2 = ns2 * (6 + rng.Intn(3)) / 10
					}
					sc.Ups = append(sc.Ups, l1Up{Track: t, Seq: back, T: back * D, Frags: 1, NS: ns2, SD: sd2, Lay: "trun", Salt: 1 + rng.Intn(60000)})
				}
			}
		}
		scs = append(scs, sc)
	}
	// consecutive numbers whose times are not contiguous: a segment that is shorter (dropped frames) or longer than
	// the grid while the next one starts on the grid again
	for k := 0; k < 2*mult; k++ {
		keys := [][]string{{"v500", "a128"}, {"v500", "v800"}}[k%2]
		sc := l1Scenario{Kind: 4, Tracks: tracksOf(keys...), Tsbd: 60, Gen: "segment-off-grid-duration"}
		const D = 36000
		for i := range keys {
			sc.Ups = append(sc.Ups, l1Up{Init: true, Track: i})
		}
		first := int64(10 + rng.Intn(90))
		for m := int64(0); m < 10; m++ {
			ns := 50
			if m >= 3 && rng.Intn(3) == 0 {
				ns = []int{40, 30, 60}[rng.Intn(3)] // the same cut in every track
			}
			for t := range keys {
				sc.Ups = append(sc.Ups, l1Up{Track: t, Seq: first + m, T: (first + m) * D, Frags: 1, NS: ns, SD: 720, Lay: "trun"})
			}
		}
		scs = append(scs, sc)
	}
	// consecutive numbers, unchanged duration, but the media time jumps (source paused or re-based, channel not
	// renumbered): forwards by a multiple and by a non-multiple of the duration, backwards by less than a segment
	for k := 0; k < 3*mult; k++ {
		keys := [][]string{{"v500", "a128"}, {"v500", "v800"}, {"v500"}}[k%3]
		sc := l1Scenario{Kind: 4, Tracks: tracksOf(keys...), Tsbd: 60, Gen: "time-jump-same-duration"}
		const D = 36000
		for i := range keys {
			sc.Ups = append(sc.Ups, l1Up{Init: true, Track: i})
		}
		first := int64(10 + rng.Intn(90))
		off := int64(0)
		for m := int64(0); m < 10; m++ {
			if m >= 3 && rng.Intn(3) == 0 {
				off += []int64{2 * D, 5 * D, D / 3, 7*D + 11, -D / 4, -D / 2}[rng.Intn(6)]
			}
			if m == 5+int64(k%3) { // at least one jump per run
				off += []int64{3 * D, D/2 + 7, -D / 3}[k%3]
			}
			for t := range keys {
				sc.Ups = append(sc.Ups, l1Up{Track: t, Seq: first + m, T: (first+m)*D + off, Frags: 1, NS: 50, SD: 720, Lay: "trun"})
			}
		}
		scs = append(scs, sc)
	}
	// a sender that restarts re-sends its init segments in the middle of the run
	for k, keys := range [][]string{{"v500", "a128"}, {"v500", "v800", "a128"}} {
		sc := l1Scenario{Kind: 4, Tracks: tracksOf(keys...), Tsbd: 30, Gen: "resent-init"}
		for i := range keys {
			sc.Ups = append(sc.Ups, l1Up{Init: true, Track: i})
		}
		for m := 1; m <= 9; m++ {
			if m == 4 {
				sc.Ups = append(sc.Ups, l1Up{Init: true, Track: k}) // one track re-sends
			}
			if m == 7 {
				for i := range keys { // all tracks re-send
					sc.Ups = append(sc.Ups, l1Up{Init: true, Track: i})
				}
			}
			for t := range keys {
				sc.Ups = append(sc.Ups, l1Up{Track: t, Seq: int64(m)})
			}
		}
		scs = append(scs, sc)
	}
	// random skewed runs with gaps, duplicates, a jump
	for i := 0; i < 40*mult; i++ {
		T := 2 + rng.Intn(2)
		keys, tsbd := pick(T)
		next := make([]int, T)
		for t := range next {
			next[t] = 1
		}
		var order [][2]int
		gen := "skewed-run"
		M := 8 + rng.Intn(20)
		jumpAt := -1
		if rng.Intn(6) == 0 {
			jumpAt = 4 + rng.Intn(M)
			gen = "jump"
		}
		for len(order) < T*M {
			t := rng.Intn(T)
			lead := 0
			for _, x := range next {
				if x > lead {
					lead = x
				}
			}
			if next[t] >= lead && rng.Intn(3) != 0 && t != 0 {
				continue
			}
			switch r := rng.Intn(100); {
			case r < 4:
				next[t]++
			case r < 8 && next[t] > 1:
				order = append(order, [2]int{t, next[t] - 1})
			default:
				order = append(order, [2]int{t, next[t]})
				next[t]++
			}
			if len(order) == jumpAt {
				j := 3 + rng.Intn(30)
				for k := range next {
					next[k] += j
				}
			}
		}
		scs = append(scs, mk(keys, tsbd, order, gen))
	}
	return scs
}

// ---------------------------------------------------------------- model input and oracle

func l1CoqCase(id int, sc l1Scenario, obs []l1Obs) string {
	var ops, os_, trs []string
	for i := range obs {
		u := sc.Ups[i]
		if u.BadTrack {
			ops = append(ops, "OCRefused")
		} else if u.Init {
			ops = append(ops, fmt.Sprintf("OCInit %d", u.Track))
		} else {
			dts, dur := l1Truth(sc, u)
			if u.Abort {
				// refused upload: the file of the number is (re)created and the old one deleted, nothing reaches the channel state
				ops = append(ops, fmt.Sprintf("OCUpAbort %d %d", u.Track, u.Seq))
			} else if sc.Shifted {
				// the model derives number, time and the shifted flag as the upload callback does
				ops = append(ops, fmt.Sprintf("OCUpIn %d %d %d %d", u.Track, u.Seq, dts, dur))
			} else {
				ops = append(ops, fmt.Sprintf("OCUp %d (mkItem %d %d %d false)", u.Track, u.Seq, dts, dur))
			}
		}
		o := obs[i]
		if o.Died != "" {
			os_ = append(os_, "ObsPanic "+lib.CoqString(o.Died))
			continue
		}
		if o.Hang {
			os_ = append(os_, "ObsPanic \"upload not answered\"")
			continue
		}
		l := append([]int64{int64(o.Status)}, o.Pub...)
		l = append(l, o.Chan...)
		for _, f := range o.Files {
			l = append(l, f[0], f[1])
		}
		if len(l) > hashAbove {
			os_ = append(os_, fmt.Sprintf("ObsHash %d %d", len(l), obsHash(l)))
		} else {
			os_ = append(os_, "ObsOk "+lib.Zlist64(l))
		}
	}
	for i, t := range sc.Tracks {
		inf := initInfo[t.Asset+"/"+t.Init+"/"+t.Media]
		trs = append(trs, fmt.Sprintf("mkTrack %d %s %s %d", i, lib.Cbool(t.Media == "video"), lib.Cbool(inf.btrt), inf.tsOut))
	}
	// adaptation sets as the receiver forms them for these track sets: video tracks share one, audio and text have their own
	var asets []string
	var vids []int
	for i, t := range sc.Tracks {
		if t.Media == "video" {
			vids = append(vids, i)
		}
	}
	if len(vids) > 0 {
		asets = append(asets, lib.ZlistInt(vids))
	}
	for i, t := range sc.Tracks {
		if t.Media != "video" {
			asets = append(asets, lib.ZlistInt([]int{i}))
		}
	}
	return fmt.Sprintf("{| c_id := %d; c_kind := 4; c_w := %d; c_ntracks := %d; c_tracks := [%s]; c_asets := [%s];\n  c_ops := [%s];\n  c_obs := [%s] |}",
		id, sc.Tsbd, len(sc.Tracks), strings.Join(trs, "; "), strings.Join(asets, "; "),
		strings.Join(ops, "; "), strings.Join(os_, ";\n   "))
}

// start time and duration of an uploaded segment in the outgoing timescale, from how it was made
func l1Truth(sc l1Scenario, u l1Up) (dts, dur int64) {
	if u.NS > 0 {
		return u.T, u.builtDur()
	}
	tp, err := l1Load(sc.Tracks[u.Track])
	if err != nil {
		panic(err)
	}
	return l1ItemOut(tp, u.timeNr())
}

// dts and duration as the channel goroutine sees them (text tracks are rescaled to 1000)
func l1ItemOut(tp *l1Template, seq int64) (dts, dur int64) {
	t := seq * tp.durIn
	d := tp.durIn
	if tp.tsOut != tp.tsIn {
		t = t * tp.tsOut / tp.tsIn
		d = l1ScaledDur(tp)
	}
	return t, d
}

// the receiver rescales the default sample duration (or every explicit sample duration) and sums
func l1ScaledDur(tp *l1Template) int64 {
	f, _ := mp4.DecodeFile(bytes.NewReader(tp.data))
	moof := f.Segments[0].Fragments[0].Moof
	trun := moof.Traf.Trun
	if trun.HasSampleDuration() {
		s := int64(0)
		for _, sm := range trun.Samples {
			s += int64(uint32(int64(sm.Dur) * tp.tsOut / tp.tsIn))
		}
		return s
	}
	def := int64(moof.Traf.Tfhd.DefaultSampleDuration)
	if def == 0 {
		def = tp.durIn / int64(trun.SampleCount())
	}
	return int64(trun.SampleCount()) * (def * tp.tsOut / tp.tsIn)
}

func l1Oracle(c *lib.Ctx, id string, sc l1Scenario, obs []l1Obs) {
	pre := map[string]bool{}
	fail := func(opi int, key, what string) {
		fin := sc
		fin.FailOp = opi
		fin.Precond = map[string]bool{}
		for k, v := range pre {
			fin.Precond[k] = v
		}
		c.Fail(id, key, fmt.Sprintf("upload %d (%+v): %s", opi, sc.Ups[opi], what), fin)
	}
	lastPub := int64(-1)
	latest := int64(0)
	maxSeq := map[int]int64{}
	gap := map[int]bool{}
	beforeStart := map[[2]int64]bool{} // (track, number) uploaded while maxNrBufSegs was still 0: that upload deleted nothing
	startedBefore := map[int]bool{}
	truth := map[string]map[int64][2]int64{} // track name -> stored number -> (start time, duration) of the uploaded segment
	staleReported := false
	regSeen := map[int]bool{}
	registered := 0
	for i, o := range obs {
		u := sc.Ups[i]
		if u.Init && regSeen[u.Track] {
			pre["resent_init"] = true
		}
		if u.Init && !regSeen[u.Track] {
			regSeen[u.Track] = true
			registered++
		}
		if o.Died != "" {
			// preconditions of the known defects, from the last observed state
			if i > 0 {
				p := obs[i-1]
				if p.Cnt[0] == p.Cnt[1] && !u.Init {
					mx := int64(-1)
					for _, its := range p.Bufs {
						for _, it := range its {
							if int64(it.SeqNr) > mx {
								mx = int64(it.SeqNr)
							}
						}
					}
					if u.Seq-p.Cnt[1]+1 > mx {
						pre["full_window_jump"] = true
					}
				}
				if !p.Started {
					pre["master_measuring"] = true
					for _, t := range sc.Tracks[:registered] {
						if len(p.Bufs[t.Name]) == 0 {
							pre["track_without_segments"] = true
						}
					}
					pre["counters_shrunk"] = true
					pre["buffer_shrunk"] = true
				}
			}
			fail(i, "process-died:"+o.Died, "the receiver process died: panic in "+o.Died+" in the channel goroutine")
			return
		}
		if o.Hang {
			fail(i, "upload-hangs", "the upload was not answered within 5 s: the receiver no longer processes uploads")
			return
		}
		if o.PubErr != "" {
			fail(i, "mpd:incomplete-document", o.PubErr)
			return
		}
		if o.Reader != "" {
			fail(i, "mpd:reader-sees-incomplete-document", o.Reader)
			return
		}
		if u.BadTrack {
			if o.Status >= 200 && o.Status < 300 {
				fail(i, "bad-track-accepted", fmt.Sprintf("an upload for a track whose directory cannot be created was answered %d", o.Status))
				return
			}
			continue
		}
		if u.Abort {
			// the connection broke inside the body: the upload must be refused and must not count as a segment
			if o.Status >= 200 && o.Status < 300 {
				fail(i, "aborted-upload-accepted", fmt.Sprintf("the body broke inside its last fragment but the upload was answered %d", o.Status))
				return
			}
			for _, it := range o.Bufs[sc.Tracks[u.Track].Name] {
				if int64(it.SeqNr) == u.Seq {
					fail(i, "aborted-upload-counted", fmt.Sprintf("the upload of segment %d of %s was refused (%d) but the segment is in the track's buffer with duration %d", u.Seq, sc.Tracks[u.Track].Name, o.Status, it.Dur))
					return
				}
			}
			continue
		}
		if o.Status != http.StatusOK {
			fail(i, fmt.Sprintf("upload-refused:%d", o.Status), "a well-formed upload was answered with an error")
			return
		}
		if o.Content != "" {
			fail(i, "stored-content", o.Content)
			return
		}
		if o.Cnt[0] > o.Cnt[1] || o.Cnt[0] > o.Cnt[2] {
			if !obs[i-1].Started && o.Started {
				pre["counters_shrunk"] = true
			}
			fail(i, "window:nrCounters>windowSize", fmt.Sprintf("nrCounters %d windowSize %d len %d", o.Cnt[0], o.Cnt[1], o.Cnt[2]))
			return
		}
		for n, s := range o.Sizes {
			if s[0] > s[1] || s[0] > s[2] || (o.Started && s[0] > o.MaxBuf-1) {
				if !obs[i-1].Started && o.Started {
					pre["buffer_shrunk"] = true
				}
				fail(i, "window:nrItems>size", fmt.Sprintf("track %s nrItems %d size %d len %d window %d", n, s[0], s[1], s[2], o.MaxBuf-1))
				return
			}
		}
		if o.Latest < latest {
			fail(i, "latest-decreased", fmt.Sprintf("latestSeqNr %d after %d", o.Latest, latest))
			return
		}
		latest = o.Latest
		if !u.Init {
			nr := o.Stored // the number the segment is stored under (the outgoing number of a shifted channel)
			if nr < 0 {
				fail(i, "stored-content", "accepted upload without a stored media file")
				return
			}
			if sc.Shifted && i > 0 && obs[i-1].MaxBuf > 0 && nr != u.timeNr() {
				if ts := tsOf(sc.Tracks[u.Track]); sc.Grid && u.T > (1<<63-1)/ts {
					pre["time_shift_int64_overflow"] = true // time * timescale does not fit into int64
				}
				fail(i, "stored-under-wrong-number", fmt.Sprintf("segment with time %d (number %d of the channel's numbering) of %s was stored as %d", u.T, u.timeNr(), sc.Tracks[u.Track].Name, nr))
				return
			}
			if truth[sc.Tracks[u.Track].Name] == nil {
				truth[sc.Tracks[u.Track].Name] = map[int64][2]int64{}
			}
			// the start time of the stored segment is what its file says (a shifted channel rewrites it), the duration
			// is the uploaded segment's
			if _, dd := l1Truth(sc, u); true {
				if prev, ok := truth[sc.Tracks[u.Track].Name][nr-1]; ok && prev[0]+prev[1] != o.StoredT {
					pre["time_discontinuity"] = true // this segment does not start where the previous number of its track ends
				}
				if was, ok := truth[sc.Tracks[u.Track].Name][nr]; ok && was != [2]int64{o.StoredT, dd} {
					pre["reupload_other_timing"] = true // the file now holds a segment with another time or duration than the first upload of this number
				}
				truth[sc.Tracks[u.Track].Name][nr] = [2]int64{o.StoredT, dd}
				if !sc.Shifted {
					if td, _ := l1Truth(sc, u); td != o.StoredT {
						fail(i, "stored-content", fmt.Sprintf("segment %d of %s was uploaded with time %d and is stored with time %d", nr, sc.Tracks[u.Track].Name, td, o.StoredT))
						return
					}
				}
				if sc.Grid && i > 0 && obs[i-1].MaxBuf > 0 && o.StoredT != nr*dd {
					fail(i, "stored-time-off-grid", fmt.Sprintf("segment %d of %s (duration %d) of a shifted channel is stored with time %d, not %d", nr, sc.Tracks[u.Track].Name, dd, o.StoredT, nr*dd))
					return
				}
			}
			if m, ok := maxSeq[u.Track]; ok && nr > m+1 && !(sc.Shifted && obs[i-1].MaxBuf > 0 && !startedBefore[u.Track]) {
				gap[u.Track] = true
			}
			if sc.Shifted && obs[i-1].MaxBuf > 0 && !startedBefore[u.Track] {
				startedBefore[u.Track] = true // first upload of this track under the outgoing numbering
				maxSeq[u.Track] = nr
			}
			if nr > maxSeq[u.Track] {
				maxSeq[u.Track] = nr
			}
			if i > 0 && obs[i-1].MaxBuf == 0 {
				beforeStart[[2]int64{int64(u.Track), nr}] = true
			}
			// storage window: no file of this track with a number <= newest - maxNrBufSegs once that is known
			if o.MaxBuf > 0 && i > 0 && obs[i-1].MaxBuf > 0 {
				for _, f := range o.Files {
					if int(f[0]) == u.Track && f[1] <= maxSeq[u.Track]-o.MaxBuf {
						if sc.Shifted && beforeStart[[2]int64{f[0], f[1]}] {
							// stored under the incoming number before the channel was started: reported once, the
							// files under the outgoing numbers are still checked
							if !staleReported {
								staleReported = true
								fin := sc
								fin.FailOp = i
								fin.Precond = map[string]bool{"stored_under_incoming_number": true}
								c.Fail(id, "files:outside-window", fmt.Sprintf("upload %d: track %s still stores segment %d (its number before the channel was started), newest %d, maxNrBufSegs %d", i, sc.Tracks[u.Track].Name, f[1], maxSeq[u.Track], o.MaxBuf), fin)
							}
							continue
						}
						if gap[u.Track] {
							pre["gap_in_track"] = true
						}
						if beforeStart[[2]int64{f[0], f[1] + o.MaxBuf}] {
							pre["deleting_upload_before_start"] = true
						}
						fail(i, "files:outside-window", fmt.Sprintf("track %s still stores segment %d, newest %d, maxNrBufSegs %d", sc.Tracks[u.Track].Name, f[1], maxSeq[u.Track], o.MaxBuf))
						return
					}
				}
			}
		}
		if p := o.PubFull; p != nil {
			if p.First > p.Last {
				fail(i, "mpd:empty-range", fmt.Sprintf("first %d > last %d", p.First, p.Last))
				return
			}
			if p.Last <= lastPub {
				fail(i, "mpd:newest-not-increasing", fmt.Sprintf("published newest %d after %d", p.Last, lastPub))
				return
			}
			lastPub = p.Last
			// every registered track is one Representation of the MPD, no id twice
			repCount := map[string]int{}
			for _, reps := range p.Reps {
				for _, r := range reps {
					repCount[r]++
				}
			}
			for r, n := range repCount {
				if n != 1 {
					fail(i, "mpd:duplicate-representation", fmt.Sprintf("the MPD has %d Representations with id %q", n, r))
					return
				}
			}
			if o.Started && registered > int(o.NrTr) {
				pre["late_track"] = true
			}
			for ai, sn := range p.StartNrs {
				if sn != p.First || int64(len(expandTL(p.TL[ai]))) != p.Last-p.First+1 {
					fail(i, "mpd:adaptation-sets-differ", fmt.Sprintf("adaptation set %d starts at %d with %d entries, first set %d..%d", ai, sn, len(expandTL(p.TL[ai])), p.First, p.Last))
					return
				}
			}
			for _, t := range sc.Tracks[:registered] {
				for nr := p.First; nr <= p.Last; nr++ {
					found := false
					for _, it := range o.Bufs[t.Name] {
						if int64(it.SeqNr) == nr {
							found = true
						}
					}
					hasFile := false
					for _, f := range o.Files {
						if sc.Tracks[f[0]].Name == t.Name && f[1] == nr {
							hasFile = true
						}
					}
					if !found || !hasFile {
						fail(i, "mpd:lists-missing-segment", fmt.Sprintf("MPD lists %d..%d but track %s has no stored segment %d (buffer %v, file %v)", p.First, p.Last, t.Name, nr, found, hasFile))
						return
					}
				}
			}
			// the listed start times and durations are those of the stored segments
			{
				for ai, reps := range p.Reps {
					for k, e := range expandTL(p.TL[ai]) {
						nr := p.First + int64(k)
						if tr, ok := truth[reps[0]][nr]; ok && (tr[0] != e[0] || tr[1] != e[1]) {
							fail(i, "mpd:differs-from-uploaded-segment", fmt.Sprintf("segment %d of %s: MPD (t=%d,d=%d), uploaded segment (time=%d,duration=%d)", nr, reps[0], e[0], e[1], tr[0], tr[1]))
							return
						}
					}
				}
			}
			for ai, reps := range p.Reps {
				ex := expandTL(p.TL[ai])
				for k, e := range ex {
					nr := p.First + int64(k)
					for _, it := range o.Bufs[reps[0]] {
						if int64(it.SeqNr) == nr && (int64(it.Dur) != e[1] || int64(it.Dts) != e[0]) {
							fail(i, "mpd:time-or-duration", fmt.Sprintf("segment %d of %s: MPD (t=%d,d=%d), stored (dts=%d,dur=%d)", nr, reps[0], e[0], e[1], it.Dts, it.Dur))
							return
						}
					}
				}
			}
		}
	}
}
