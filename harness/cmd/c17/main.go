// C17 — ingest receiver: stored media and timeline MPD agree for any arrival order.
// Drives the real seqCounters / segDataBuffer / segmentTimelineGenerator / channel.receivedSegData
// (through verif_hooks_c17.go) with operation sequences, records the observable state after every
// operation as Coq terms for the model (theories/Recv.v, CorrC17.v) and evaluates the property text.
package main

import (
	"fmt"
	"io"
	"log/slog"
	"math/rand"
	"os"
	"path/filepath"
	"runtime"
	"sort"
	"strings"
	"sync"
	"sync/atomic"

	app "github.com/Dash-Industry-Forum/livesim2/cmd/cmaf-ingest-receiver/app"
	"github.com/Eyevinn/dash-mpd/mpd"
	"verifharness/lib"
)

func main() {
	slog.SetDefault(slog.New(slog.NewTextHandler(io.Discard, nil)))
	if p := os.Getenv("C17_L1_CHILD"); p != "" {
		l1ChildMain(p)
		return
	}
	lib.Main("C17", runC17)
}

// ---------------------------------------------------------------- inputs

type c17op struct {
	K    string `json:"k"` // scadd scdrop scresize scfull scnew scmin | badd bget bresize bdrop bunshift | gadd gstart gdrop gresize ggen | init recv
	N    int64  `json:"n,omitempty"`
	M    int64  `json:"m,omitempty"`
	Name int    `json:"name,omitempty"`
	Seq  int64  `json:"seq,omitempty"`
	Dts  int64  `json:"dts,omitempty"`
	Dur  int64  `json:"dur,omitempty"`
	Sh   bool   `json:"sh,omitempty"`
}

type c17track struct {
	Name  string `json:"name"`  // track name = directory under testdata
	Asset string `json:"asset"` // testdata sub directory
	Init  string `json:"init"`
	Ext   string `json:"ext"`
	Media string `json:"media"`
}

type c17in struct {
	Kind    int        `json:"kind"` // 0 seqCounters 1 segDataBuffer 2 generator 3 channel
	W       uint32     `json:"w"`    // initial window / size, timeShiftBufferDepthS for kind 3
	NTracks int        `json:"ntracks"`
	Tracks  []c17track `json:"tracks,omitempty"`
	Asets   [][]int    `json:"asets,omitempty"` // kind 2: adaptation sets given to Generate
	Ops     []c17op    `json:"ops"`
	Gen     string     `json:"generator"` // which family of the input generator made it
	// filled in for a failure:
	FailOp  int             `json:"fail_op,omitempty"`
	Precond map[string]bool `json:"precond,omitempty"`
}

type c17obs struct {
	Panic string
	L     []int64
}

// what the oracle needs besides the flattened observation
type c17snap struct {
	sc    *app.VerifCountersState
	b     *app.VerifBufferState
	g     *app.VerifGenState
	ch    *app.VerifChannelState
	pub   *pubMPD
	res   []int64
	preOk bool
}

type pubMPD struct {
	First, Last int64
	TL          [][][3]int64 // per adaptation set: (t or -1, d, r)
	StartNrs    []int64
	Reps        [][]string
}

// ---------------------------------------------------------------- flattening (must agree with CorrC17.v)

func b2i(b bool) int64 {
	if b {
		return 1
	}
	return 0
}

func u32s(l []uint32, n int) []int64 {
	if n > len(l) {
		n = len(l)
	}
	out := make([]int64, n)
	for i := 0; i < n; i++ {
		out[i] = int64(l[i])
	}
	return out
}

func flatSc(s app.VerifCountersState) []int64 {
	out := []int64{int64(s.Len), int64(s.NrCounters), int64(s.WindowSize), int64(len(s.SeqNrs))}
	out = append(out, u32s(s.SeqNrs, len(s.SeqNrs))...)
	return append(out, u32s(s.Counts, len(s.Counts))...)
}

func liveSc(s app.VerifCountersState) []int64 {
	out := []int64{int64(s.Len), int64(s.NrCounters), int64(s.WindowSize)}
	out = append(out, u32s(s.SeqNrs, int(s.NrCounters))...)
	return append(out, u32s(s.Counts, int(s.NrCounters))...)
}

func flatItem(i app.VerifItem) []int64 {
	return []int64{int64(i.SeqNr), int64(i.Dts), int64(i.Dur), b2i(i.IsShifted)}
}

func flatSdb(b app.VerifBufferState) []int64 {
	out := []int64{int64(b.Len), int64(b.NrItems), int64(b.Size), int64(len(b.Items))}
	for _, it := range b.Items {
		out = append(out, flatItem(it)...)
	}
	return out
}

func liveItems(b app.VerifBufferState) []app.VerifItem {
	n := int(b.NrItems)
	if n > len(b.Items) {
		n = len(b.Items)
	}
	return b.Items[:n]
}

func liveSdb(b app.VerifBufferState) []int64 {
	out := []int64{int64(b.Len), int64(b.NrItems), int64(b.Size)}
	for _, it := range liveItems(b) {
		out = append(out, flatItem(it)...)
	}
	return out
}

func flatGen(names []string, g app.VerifGenState) []int64 {
	out := []int64{int64(g.LatestSeqNr), int64(g.WindowSize), int64(g.NrTracks), b2i(g.Started), b2i(g.Shifted)}
	out = append(out, liveSc(g.Counters)...)
	for _, n := range names {
		if b, ok := g.Buffers[n]; ok {
			out = append(out, 1)
			out = append(out, liveSdb(b)...)
		} else {
			out = append(out, -1)
		}
	}
	return out
}

func flatPub(p *pubMPD) []int64 {
	if p == nil {
		return []int64{0}
	}
	out := []int64{1, p.First, p.Last}
	for _, tl := range p.TL {
		out = append(out, int64(len(tl)))
		for _, s := range tl {
			out = append(out, s[0], s[1], s[2])
		}
	}
	return out
}

func flatChan(names []string, c app.VerifChannelState) []int64 {
	out := []int64{int64(c.MasterSegDuration), int64(c.MasterTimescale), c.MasterSeqNrShift, c.MasterTimeShift, int64(c.MaxNrBufSegs)}
	return append(out, flatGen(names, c.Gen)...)
}

// ---------------------------------------------------------------- panics

const appPkg = "cmaf-ingest-receiver/app."

// panicSite names the function of package app in which the panic was raised and its kind,
// e.g. "seqCounters.add:slice".
func panicSite(r any) string {
	msg := fmt.Sprint(r)
	kind := "other"
	switch {
	case strings.Contains(msg, "index out of range"):
		kind = "index"
	case strings.Contains(msg, "slice bounds out of range"):
		kind = "slice"
	case strings.Contains(msg, "nil pointer dereference"):
		kind = "nil"
	case strings.Contains(msg, "divide by zero"):
		kind = "div"
	}
	pcs := make([]uintptr, 64)
	n := runtime.Callers(2, pcs)
	frames := runtime.CallersFrames(pcs[:n])
	for {
		f, more := frames.Next()
		if i := strings.Index(f.Function, appPkg); i >= 0 && !strings.Contains(f.Function, "Verif") && !strings.Contains(f.Function, "verif") {
			fn := f.Function[i+len(appPkg):]
			fn = strings.NewReplacer("(*", "", ")", "").Replace(fn)
			return fn + ":" + kind
		}
		if !more {
			break
		}
	}
	return "unknown:" + kind
}

func guarded(f func()) (site string) {
	defer func() {
		if r := recover(); r != nil {
			site = panicSite(r)
		}
	}()
	f()
	return ""
}

// ---------------------------------------------------------------- MPD read-back

func readPub(dir string, prev *string) (*pubMPD, error) {
	data, err := os.ReadFile(filepath.Join(dir, "manifest_timeline_nr.mpd"))
	if err != nil {
		return nil, nil // not written yet
	}
	if string(data) == *prev {
		return nil, nil
	}
	*prev = string(data)
	m, err := mpd.MPDFromBytes(data)
	if err != nil {
		return nil, fmt.Errorf("manifest_timeline_nr.mpd is not a complete document: %v", err)
	}
	if len(m.Periods) != 1 {
		return nil, fmt.Errorf("manifest_timeline_nr.mpd has %d periods", len(m.Periods))
	}
	p := &pubMPD{First: -1}
	for _, as := range m.Periods[0].AdaptationSets {
		if as.SegmentTemplate == nil || as.SegmentTemplate.SegmentTimeline == nil || as.SegmentTemplate.StartNumber == nil {
			return nil, fmt.Errorf("adaptation set without SegmentTimeline/startNumber")
		}
		var tl [][3]int64
		cnt := int64(0)
		for _, s := range as.SegmentTemplate.SegmentTimeline.S {
			t := int64(-1)
			if s.T != nil {
				t = int64(*s.T)
			}
			tl = append(tl, [3]int64{t, int64(s.D), int64(s.R)})
			cnt += int64(s.R) + 1
		}
		sn := int64(*as.SegmentTemplate.StartNumber)
		if p.First < 0 {
			p.First, p.Last = sn, sn+cnt-1
		}
		p.StartNrs = append(p.StartNrs, sn)
		p.TL = append(p.TL, tl)
		var reps []string
		for _, r := range as.Representations {
			reps = append(reps, r.Id)
		}
		p.Reps = append(p.Reps, reps)
	}
	return p, nil
}

// expand a timeline to (start, duration) per segment
func expandTL(tl [][3]int64) [][2]int64 {
	var out [][2]int64
	cur := int64(0)
	for _, s := range tl {
		t := s[0]
		if t == -1 {
			t = cur
		}
		for k := int64(0); k <= s[2]; k++ {
			out = append(out, [2]int64{t, s[1]})
			t += s[1]
		}
		cur = t
	}
	return out
}

// ---------------------------------------------------------------- running one case on the implementation

func item(o c17op, names []string) app.VerifItem {
	it := app.VerifItem{SeqNr: uint32(o.Seq), Dts: uint64(o.Dts), Dur: uint32(o.Dur), IsShifted: o.Sh, TotSize: 1000, NrSamples: 96}
	if names != nil {
		it.Name = names[o.Name]
	}
	return it
}

func trackNames(in c17in) []string {
	var names []string
	if in.Kind == 3 {
		for _, t := range in.Tracks {
			names = append(names, t.Name)
		}
		return names
	}
	for i := 0; i < in.NTracks; i++ {
		names = append(names, fmt.Sprintf("t%d", i))
	}
	return names
}

const testdata = "/repo/cmd/cmaf-ingest-receiver/app/testdata/"

type runOut struct {
	obs    []c17obs
	snaps  []c17snap // state after op i (nil fields when panicked)
	pre    []c17snap // state before op i
	tracks []c17ctrack
	master int
	asets  [][]int
	err    string
}

// c17ctrack is what the model needs to know about a registered track.
type c17ctrack struct {
	Name  int
	Video bool
	Btrt  bool
	TsOut int64
}

var initInfo = map[string]struct {
	btrt  bool
	tsOut int64
}{}

func runCase(in c17in, workdir string) runOut {
	var out runOut
	names := trackNames(in)
	var sc *app.VerifCounters
	var b *app.VerifBuffer
	var g *app.VerifGen
	var ch *app.VerifChannel
	dir := ""
	if in.Kind >= 2 {
		d, err := os.MkdirTemp(workdir, "c17-")
		if err != nil {
			out.err = err.Error()
			return out
		}
		dir = d
		defer os.RemoveAll(dir)
	}
	register := func(i int) {
		t := in.Tracks[i]
		if err := ch.AddInit(t.Name, t.Ext, t.Media, initBytes[t.Asset+"/"+t.Init]); err != nil {
			out.err = "AddInit: " + err.Error()
		}
	}
	switch in.Kind {
	case 0:
		sc = app.VerifNewCounters(in.W)
	case 1:
		b = app.VerifNewBuffer(in.W)
	case 2:
		g = app.VerifNewGen(dir, in.W)
	case 3:
		ch = app.VerifNewChannel(dir, in.W, 0)
		defer ch.Close()
	}
	snap := func() c17snap {
		var s c17snap
		switch in.Kind {
		case 0:
			st := sc.State()
			s.sc = &st
		case 1:
			st := b.State()
			s.b = &st
		case 2:
			st := g.State()
			s.g = &st
		case 3:
			st := ch.State()
			s.ch = &st
			s.g = &st.Gen
		}
		return s
	}
	prevMPD := ""
	asNames := func() [][]string {
		var l [][]string
		for _, as := range in.Asets {
			var r []string
			for _, k := range as {
				r = append(r, names[k])
			}
			l = append(l, r)
		}
		return l
	}
	for _, o := range in.Ops {
		pre := snap()
		var res []int64
		var pub *pubMPD
		var pubErr error
		site := guarded(func() {
			switch o.K {
			case "scadd":
				sc.Add(uint32(o.N))
			case "scdrop":
				sc.Drop(uint32(o.N))
			case "scresize":
				sc.Resize(uint32(o.N))
			case "scfull":
				f, l := sc.FullRange(uint32(o.N))
				res = []int64{int64(f), int64(l)}
			case "scnew":
				res = []int64{int64(sc.NewFullCounter(uint32(o.N), uint32(o.M)))}
			case "scmin":
				res = []int64{int64(sc.MinFromMax(uint32(o.N)))}
			case "badd":
				res = []int64{b2i(b.Add(item(o, nil)) == nil)}
			case "bget":
				it, ok := b.GetItem(uint32(o.N))
				if ok {
					res = append([]int64{1}, flatItem(it)...)
				} else {
					res = []int64{0}
				}
			case "bresize":
				b.Resize(uint32(o.N))
			case "bdrop":
				b.DropSeqNr(uint32(o.N))
			case "bunshift":
				u := b.RemoveUnshifted()
				res = append([]int64{int64(len(u))}, u32s(u, len(u))...)
			case "gadd":
				n, err := g.AddSegmentData(item(o, names))
				res = []int64{int64(n), b2i(err == nil)}
			case "gstart":
				g.Start(uint32(o.N), o.Sh)
			case "gdrop":
				g.DropSeqNr(uint32(o.N))
			case "gresize":
				g.Resize(uint32(o.N))
			case "ggen":
				_ = g.Generate(uint32(o.N), asNames(), dir)
				pub, pubErr = readPub(dir, &prevMPD)
				res = flatPub(pub)
			case "init":
				register(o.Name)
				res = []int64{int64(indexOf(names, ch.State().MasterTrName))}
			case "recv":
				ch.ReceivedSegData(item(o, names), 1, true)
				pub, pubErr = readPub(dir, &prevMPD)
				res = flatPub(pub)
			default:
				panic("harness: unknown op " + o.K)
			}
		})
		out.pre = append(out.pre, pre)
		if site != "" {
			out.obs = append(out.obs, c17obs{Panic: site})
			out.snaps = append(out.snaps, c17snap{})
			break
		}
		if pubErr != nil {
			out.err = pubErr.Error()
		}
		post := snap()
		post.pub = pub
		post.res = res
		post.preOk = true
		var l []int64
		switch in.Kind {
		case 0:
			l = append(res, flatSc(*post.sc)...)
		case 1:
			l = append(res, flatSdb(*post.b)...)
		case 2:
			l = append(res, flatGen(names, *post.g)...)
		case 3:
			l = append(res, flatChan(names, *post.ch)...)
		}
		out.obs = append(out.obs, c17obs{L: l})
		out.snaps = append(out.snaps, post)
	}
	if in.Kind == 3 {
		st := ch.State()
		idx := map[string]int{}
		for i, n := range names {
			idx[n] = i
		}
		out.master = idx[st.MasterTrName]
		for _, as := range st.Asets {
			var l []int
			for _, r := range as {
				l = append(l, idx[r])
			}
			out.asets = append(out.asets, l)
		}
		for i, t := range in.Tracks {
			inf := initInfo[t.Asset+"/"+t.Init+"/"+t.Media]
			out.tracks = append(out.tracks, c17ctrack{Name: i, Video: t.Media == "video", Btrt: inf.btrt, TsOut: inf.tsOut})
		}
	}
	return out
}

// ---------------------------------------------------------------- oracle: the property text

type liveC struct{ seq, cnt int64 }

func liveCounters(s app.VerifCountersState) []liveC {
	n := int(s.NrCounters)
	if n > len(s.SeqNrs) {
		n = len(s.SeqNrs)
	}
	var l []liveC
	for i := 0; i < n; i++ {
		l = append(l, liveC{int64(s.SeqNrs[i]), int64(s.Counts[i])})
	}
	return l
}

func increasingC(l []liveC) bool {
	for i := 1; i < len(l); i++ {
		if l[i].seq <= l[i-1].seq {
			return false
		}
	}
	return true
}

func increasingI(l []app.VerifItem) bool {
	for i := 1; i < len(l); i++ {
		if l[i].SeqNr <= l[i-1].SeqNr {
			return false
		}
	}
	return true
}

// preconditions of the known defects, computed from the state before the failing operation and the operation
func preconds(in c17in, o c17op, pre c17snap) map[string]bool {
	p := map[string]bool{}
	var sc *app.VerifCountersState
	var bufs []app.VerifBufferState
	switch {
	case pre.sc != nil:
		sc = pre.sc
	case pre.g != nil:
		sc = &pre.g.Counters
		for _, b := range pre.g.Buffers {
			bufs = append(bufs, b)
		}
	case pre.b != nil:
		bufs = append(bufs, *pre.b)
	}
	addNr := int64(-1)
	switch o.K {
	case "scadd":
		addNr = o.N
	case "gadd", "recv":
		addNr = o.Seq
	}
	if sc != nil {
		live := liveCounters(*sc)
		if int(sc.NrCounters) > sc.Len {
			p["counters_shrunk"] = true
		}
		if addNr >= 0 && len(live) > 0 && int(sc.NrCounters) <= sc.Len {
			max, min := live[len(live)-1].seq, live[0].seq
			if sc.NrCounters == sc.WindowSize && addNr-int64(sc.WindowSize)+1 > max {
				p["full_window_jump"] = true
			}
			present := false
			for _, c := range live {
				if c.seq == addNr {
					present = true
				}
			}
			if !present && addNr > min && addNr < max {
				p["insert_between"] = true
			}
		}
		if (o.K == "scresize" || o.K == "gresize" || o.K == "gstart") && o.N < int64(sc.NrCounters) {
			p["counters_shrunk"] = true
		}
	}
	for _, b := range bufs {
		if int(b.Size) != b.Len {
			p["buffer_shrunk"] = true
		}
		if (o.K == "bresize" || o.K == "gresize" || o.K == "gstart") && o.N < int64(b.NrItems) {
			p["buffer_shrunk"] = true
		}
	}
	if pre.ch != nil {
		// a registered track that has no buffer yet / an empty buffer while the master track is still measuring
		regd := 0
		for i, t := range in.Tracks {
			_ = i
			if contains(pre.ch.TrIDs, t.Name) {
				regd++
				if b, ok := pre.ch.Gen.Buffers[t.Name]; !ok {
					p["track_without_segments"] = true
				} else if b.NrItems == 0 {
					p["track_without_segments"] = true
				}
			}
		}
		if pre.ch.MasterSegDuration == 0 && o.K == "recv" && in.Tracks[o.Name].Name == pre.ch.MasterTrName {
			p["master_measuring"] = true
			if o.Dur == 0 {
				p["zero_duration"] = true
			}
			// if this upload starts the channel, the generator is resized to this window
			if o.Dur > 0 {
				wNew := int64(in.W)*tsOf(in.Tracks[o.Name])/o.Dur + 1
				if int64(sc.NrCounters)+1 > wNew {
					p["counters_shrunk"] = true
				}
				for _, b := range bufs {
					if int64(b.NrItems)+1 > wNew {
						p["buffer_shrunk"] = true
					}
				}
			}
		}
	}
	return p
}

func indexOf(l []string, s string) int {
	for i, x := range l {
		if x == s {
			return i
		}
	}
	return -1
}

func contains(l []string, s string) bool {
	for _, x := range l {
		if x == s {
			return true
		}
	}
	return false
}

// oracle evaluates the property on one executed case; it reports the first violation only
// (later ones are consequences of the corrupted state).
func oracle(c *lib.Ctx, id string, in c17in, out runOut) {
	extra := map[string]bool{}
	fail := func(opi int, key, what string) {
		fin := in
		fin.FailOp = opi
		fin.Precond = preconds(in, in.Ops[opi], out.pre[opi])
		for k, v := range extra {
			fin.Precond[k] = v
		}
		c.Fail(id, key, fmt.Sprintf("op %d (%+v): %s", opi, in.Ops[opi], what), fin)
	}
	if out.err != "" {
		c.Fail(id, "harness-observation", out.err, in)
		return
	}
	names := trackNames(in)
	adds := map[int64]int64{}
	lastPub := int64(-1)
	latest := int64(0)
	for opi, ob := range out.obs {
		o := in.Ops[opi]
		if ob.Panic != "" {
			fail(opi, "panic:"+ob.Panic, "panic in "+ob.Panic+" (in production: in the channel goroutine, which nothing recovers)")
			return
		}
		pre, post := out.pre[opi], out.snaps[opi]
		switch in.Kind {
		case 0:
			s := *post.sc
			live := liveCounters(s)
			if int64(s.NrCounters) > int64(s.WindowSize) || int(s.NrCounters) > s.Len {
				fail(opi, "window:nrCounters>windowSize", fmt.Sprintf("nrCounters %d, windowSize %d, len %d", s.NrCounters, s.WindowSize, s.Len))
				return
			}
			if !increasingC(live) {
				fail(opi, "counters:not-increasing", fmt.Sprintf("live counters %v", live))
				return
			}
			if o.K == "scadd" {
				adds[o.N]++
				// every entry that was live and is still inside the window of the new maximum must survive
				// with its count (the oldest one may go when the array was full), the added number must be
				// counted if it is inside the window
				prel := liveCounters(*pre.sc)
				w := int64(s.WindowSize)
				max := o.N
				if len(prel) > 0 && prel[len(prel)-1].seq > max {
					max = prel[len(prel)-1].seq
				}
				min := max - w + 1
				exp := map[int64]int64{}
				dontCare := map[int64]bool{} // entries that were already outside the window before this add (left there by a shrinking resize)
				for _, e := range prel {
					if e.seq < prel[len(prel)-1].seq-w+1 {
						dontCare[e.seq] = true
					} else if e.seq >= min {
						exp[e.seq] = e.cnt
					}
				}
				oldMinOK := len(prel) == 0 || o.N >= prel[len(prel)-1].seq-w+1
				if o.N >= min && oldMinOK {
					exp[o.N]++
				}
				got := map[int64]int64{}
				for _, e := range live {
					got[e.seq] = e.cnt
				}
				var expKeys []int64
				for k := range exp {
					expKeys = append(expKeys, k)
				}
				sort.Slice(expKeys, func(i, j int) bool { return expKeys[i] < expKeys[j] })
				for i, k := range expKeys {
					v, ok := got[k]
					if !ok && i == 0 && len(expKeys) > 1 && int64(len(prel)) == w {
						continue // oldest entry of a full array
					}
					if !ok && k == o.N && len(prel) > 0 && o.N < prel[0].seq {
						continue // older than everything stored: ignored by design
					}
					if !ok {
						fail(opi, "counters:entry-lost", fmt.Sprintf("number %d (count %d) is inside the window [%d,%d] but no longer counted: before %v after %v", k, exp[k], min, max, prel, live))
						return
					}
					if v != exp[k] {
						fail(opi, "counters:wrong-count", fmt.Sprintf("number %d has count %d, expected %d: before %v after %v", k, v, exp[k], prel, live))
						return
					}
				}
				for k := range got {
					if _, ok := exp[k]; !ok && !dontCare[k] {
						fail(opi, "counters:phantom-entry", fmt.Sprintf("number %d counted but not expected: before %v after %v", k, prel, live))
						return
					}
				}
			}
		case 1:
			s := *post.b
			if s.NrItems > s.Size || int(s.NrItems) > s.Len {
				fail(opi, "window:nrItems>size", fmt.Sprintf("nrItems %d size %d len %d", s.NrItems, s.Size, s.Len))
				return
			}
			live := liveItems(s)
			if !increasingI(live) {
				fail(opi, "buffer:not-increasing", fmt.Sprintf("%v", live))
				return
			}
			if o.K == "badd" && post.res[0] == 1 {
				found := false
				for _, it := range live {
					if int64(it.SeqNr) == o.Seq && int64(it.Dts) == o.Dts && int64(it.Dur) == o.Dur {
						found = true
					}
				}
				if !found {
					fail(opi, "buffer:item-lost", "accepted item is not stored")
					return
				}
				for _, it := range liveItems(*pre.b) {
					if int64(it.SeqNr) > o.Seq-int64(pre.b.Size) {
						ok := false
						for _, j := range live {
							if j == it {
								ok = true
							}
						}
						if !ok {
							fail(opi, "buffer:item-lost", fmt.Sprintf("item %d is inside the window of %d but was discarded", it.SeqNr, o.Seq))
							return
						}
					}
				}
			}
		case 2, 3:
			g := *post.g
			if int64(g.Counters.NrCounters) > int64(g.Counters.WindowSize) || int(g.Counters.NrCounters) > g.Counters.Len {
				fail(opi, "window:nrCounters>windowSize", fmt.Sprintf("nrCounters %d, windowSize %d, len %d", g.Counters.NrCounters, g.Counters.WindowSize, g.Counters.Len))
				return
			}
			for n, b := range g.Buffers {
				if b.NrItems > b.Size || int(b.NrItems) > b.Len {
					fail(opi, "window:nrItems>size", fmt.Sprintf("track %s: nrItems %d size %d len %d", n, b.NrItems, b.Size, b.Len))
					return
				}
				if in.Kind == 3 && int64(b.NrItems) > int64(g.WindowSize) && g.Started {
					fail(opi, "window:nrItems>windowSize", fmt.Sprintf("track %s: nrItems %d, windowSize %d", n, b.NrItems, g.WindowSize))
					return
				}
				if !increasingI(liveItems(b)) {
					fail(opi, "buffer:not-increasing", fmt.Sprintf("track %s: %v", n, liveItems(b)))
					return
				}
			}
			if int64(g.LatestSeqNr) < latest {
				fail(opi, "latest-decreased", fmt.Sprintf("latestSeqNr went from %d to %d", latest, g.LatestSeqNr))
				return
			}
			latest = int64(g.LatestSeqNr)
			// generate is only reachable once the generator is started (addSegmentData reports no new number
			// before); a direct call before start in a random operation sequence is compared with the model only
			if p := post.pub; p != nil && g.Started {
				if p.First > p.Last {
					fail(opi, "mpd:empty-range", fmt.Sprintf("published first %d > last %d", p.First, p.Last))
					return
				}
				if p.Last <= lastPub {
					fail(opi, "mpd:newest-not-increasing", fmt.Sprintf("published newest number %d after %d", p.Last, lastPub))
					return
				}
				lastPub = p.Last
				for ai, sn := range p.StartNrs {
					if sn != p.First || int64(len(expandTL(p.TL[ai]))) != p.Last-p.First+1 {
						fail(opi, "mpd:adaptation-sets-differ", fmt.Sprintf("adaptation set %d: startNumber %d, %d entries; first set %d..%d", ai, sn, len(expandTL(p.TL[ai])), p.First, p.Last))
						return
					}
				}
				// every listed number must be stored for every track, with the listed time and duration
				var tracks []string
				if in.Kind == 3 {
					tracks = append(tracks, post.ch.TrIDs...)
				} else {
					for n := range g.Buffers {
						tracks = append(tracks, n)
					}
					sort.Strings(tracks)
				}
				if g.Started && len(tracks) > int(g.NrTracks) {
					extra["late_track"] = true // a track that was not counted when the generator was started
				}
				for _, tn := range tracks {
					b, ok := g.Buffers[tn]
					for nr := p.First; nr <= p.Last; nr++ {
						found := false
						if ok {
							for _, it := range liveItems(b) {
								if int64(it.SeqNr) == nr {
									found = true
								}
							}
						}
						if !found {
							fail(opi, "mpd:lists-missing-segment", fmt.Sprintf("MPD lists %d..%d but track %s has no segment %d", p.First, p.Last, tn, nr))
							return
						}
					}
				}
				for ai, reps := range p.Reps {
					if len(reps) == 0 {
						continue
					}
					b := g.Buffers[reps[0]]
					ex := expandTL(p.TL[ai])
					for k, e := range ex {
						nr := p.First + int64(k)
						for _, it := range liveItems(b) {
							if int64(it.SeqNr) == nr {
								if int64(it.Dur) != e[1] {
									fail(opi, "mpd:duration", fmt.Sprintf("segment %d of %s: MPD d=%d, stored dur=%d", nr, reps[0], e[1], it.Dur))
									return
								}
								if int64(it.Dts) != e[0] {
									fail(opi, "mpd:start-time", fmt.Sprintf("segment %d of %s: MPD t=%d, stored dts=%d", nr, reps[0], e[0], it.Dts))
									return
								}
							}
						}
					}
				}
			}
		}
	}
	_ = names
}

// ---------------------------------------------------------------- Coq terms

func coqItem(o c17op) string {
	return fmt.Sprintf("(mkItem %s %s %s %s)", lib.Zs(o.Seq), lib.Zs(o.Dts), lib.Zs(o.Dur), lib.Cbool(o.Sh))
}

func coqOp(o c17op) string {
	switch o.K {
	case "scadd":
		return "OScAdd " + lib.Zs(o.N)
	case "scdrop":
		return "OScDrop " + lib.Zs(o.N)
	case "scresize":
		return "OScResize " + lib.Zs(o.N)
	case "scfull":
		return "OScFullRange " + lib.Zs(o.N)
	case "scnew":
		return fmt.Sprintf("OScNewFull %s %s", lib.Zs(o.N), lib.Zs(o.M))
	case "scmin":
		return "OScMin " + lib.Zs(o.N)
	case "badd":
		return "OBAdd " + coqItem(o)
	case "bget":
		return "OBGet " + lib.Zs(o.N)
	case "bresize":
		return "OBResize " + lib.Zs(o.N)
	case "bdrop":
		return "OBDrop " + lib.Zs(o.N)
	case "bunshift":
		return "OBUnshift"
	case "gadd":
		return fmt.Sprintf("OGAdd %d %s", o.Name, coqItem(o))
	case "gstart":
		return fmt.Sprintf("OGStart %s %s", lib.Zs(o.N), lib.Cbool(o.Sh))
	case "gdrop":
		return "OGDrop " + lib.Zs(o.N)
	case "gresize":
		return "OGResize " + lib.Zs(o.N)
	case "ggen":
		return "OGGen " + lib.Zs(o.N)
	case "init":
		return fmt.Sprintf("OCInit %d", o.Name)
	case "recv":
		return fmt.Sprintf("OCRecv %d %s", o.Name, coqItem(o))
	}
	panic("coqOp")
}

func coqCase(id int, in c17in, out runOut) string {
	var ops, obs, trs, asets []string
	for i := range out.obs {
		ops = append(ops, coqOp(in.Ops[i]))
		if out.obs[i].Panic != "" {
			obs = append(obs, "ObsPanic "+lib.CoqString(out.obs[i].Panic))
		} else if l := out.obs[i].L; len(l) > hashAbove {
			obs = append(obs, fmt.Sprintf("ObsHash %d %d", len(l), obsHash(l)))
		} else {
			obs = append(obs, "ObsOk "+lib.Zlist64(l))
		}
	}
	for _, t := range out.tracks {
		trs = append(trs, fmt.Sprintf("mkTrack %d %s %s %d", t.Name, lib.Cbool(t.Video), lib.Cbool(t.Btrt), t.TsOut))
	}
	as := in.Asets
	if in.Kind == 3 {
		as = out.asets
	}
	for _, a := range as {
		asets = append(asets, lib.ZlistInt(a))
	}
	return fmt.Sprintf("{| c_id := %d; c_kind := %d; c_w := %d; c_ntracks := %d; c_tracks := [%s]; c_asets := [%s];\n  c_ops := [%s];\n  c_obs := [%s] |}",
		id, in.Kind, in.W, len(trackNames(in)), strings.Join(trs, "; "), strings.Join(asets, "; "),
		strings.Join(ops, "; "), strings.Join(obs, ";\n   "))
}

// Observations longer than hashAbove numbers are handed to Coq as (length, polynomial hash mod 2^63);
// CorrC17.obs_hash computes the same function of the model's observation.
const hashAbove = 12

func obsHash(l []int64) uint64 {
	acc := uint64(0)
	for _, x := range l {
		acc = (acc*1000003 + uint64(x+2)) & (1<<63 - 1)
	}
	return acc
}

// ---------------------------------------------------------------- main

func runC17(c *lib.Ctx) error {
	if err := loadInitInfo(); err != nil {
		return err
	}
	tmpRoot := ""
	if st, err := os.Stat("/dev/shm"); err == nil && st.IsDir() {
		tmpRoot = "/dev/shm"
	}
	work, err := os.MkdirTemp(tmpRoot, "c17work-")
	if err != nil {
		return err
	}
	defer os.RemoveAll(work)
	if c.Replay != "" {
		if probe, err := lib.LoadReplayInput[map[string]any](c.Replay); err == nil && probe["kind"] == float64(4) {
			sc, err := lib.LoadReplayInput[l1Scenario](c.Replay)
			if err != nil {
				return err
			}
			outs, err := l1RunAll(c, []l1Scenario{sc})
			if err != nil {
				return err
			}
			for i, o := range outs[0] {
				fmt.Printf("  upload %d %+v: status %d pub %v files %v died %q\n", i, sc.Ups[i], o.Status, o.Pub, o.Files, o.Died)
			}
			l1Oracle(c, "replay", sc, outs[0])
			return nil
		}
		in, err := lib.LoadReplayInput[c17in](c.Replay)
		if err != nil {
			return err
		}
		out := runCase(in, work)
		for i, ob := range out.obs {
			if ob.Panic != "" {
				fmt.Printf("  op %d %+v: PANIC %s\n", i, in.Ops[i], ob.Panic)
			} else {
				fmt.Printf("  op %d %+v: %v\n", i, in.Ops[i], ob.L)
			}
		}
		oracle(c, "replay", in, out)
		return nil
	}
	rng := rand.New(rand.NewSource(c.Seed))
	ins := generate(c, rng)
	distinct := map[string]bool{}
	var terms []string
	shardBytes, nshard, curBytes := 150000, 0, 0
	flush := func() {
		if len(terms) == 0 {
			return
		}
		c.WriteCases(fmt.Sprintf("cases_C17_%d.v", nshard),
			lib.CasesFile("From Verif Require Import GoSem Recv CorrC17.", "c17case", "", terms, "model_view"))
		nshard++
		terms = nil
		curBytes = 0
	}
	nops := 0
	outs := make([]runOut, len(ins))
	{
		var wg sync.WaitGroup
		next := int64(-1)
		for w := 0; w < 8; w++ {
			wg.Add(1)
			go func() {
				defer wg.Done()
				for {
					i := int(atomic.AddInt64(&next, 1))
					if i >= len(ins) {
						return
					}
					outs[i] = runCase(ins[i], work)
				}
			}()
		}
		wg.Wait()
	}
	for i, in := range ins {
		id := fmt.Sprintf("%d", i)
		out := outs[i]
		c.Res.Inputs[id] = in
		c.Count(fmt.Sprintf("kind%d:%s", in.Kind, in.Gen))
		oracle(c, id, in, out)
		term := coqCase(i, in, out)
		terms = append(terms, term)
		curBytes += len(term)
		nops += len(out.obs)
		if len(out.obs) >= 3 {
			distinct[fmt.Sprintf("%d/%d/%v/%v", in.Kind, in.W, in.Tracks, in.Ops)] = true
		}
		if curBytes >= shardBytes || len(terms) >= 400 {
			flush()
		}
		if i%997 == 0 {
			last := out.obs[len(out.obs)-1]
			c.Sample(map[string]any{"input": in, "operations_run": len(out.obs), "last_observation": last.L, "panic": last.Panic})
		}
	}
	// L1: the same model against the receiver's HTTP handler, in child processes
	scs := l1Generate(c, rng)
	l1outs, err := l1RunAll(c, scs)
	if err != nil {
		return err
	}
	for k, sc := range scs {
		i := len(ins) + k
		id := fmt.Sprintf("%d", i)
		c.Res.Inputs[id] = sc
		c.Count("kind4:" + sc.Gen)
		l1Oracle(c, id, sc, l1outs[k])
		term := l1CoqCase(i, sc, l1outs[k])
		terms = append(terms, term)
		curBytes += len(term)
		nops += len(l1outs[k])
		distinct[fmt.Sprintf("4/%d/%v/%v", sc.Tsbd, sc.Tracks, sc.Ups)] = true
		if curBytes >= shardBytes || len(terms) >= 400 {
			flush()
		}
	}
	flush()
	c.Res.Evaluations = len(ins) + len(scs)
	c.Res.DistinctNontrivial = len(distinct)
	c.Res.Notes = append(c.Res.Notes, fmt.Sprintf("%d operations executed on the real structs and compared state by state with the model", nops))
	c.Res.Rule = "operation sequences on the real seqCounters (kind0), segDataBuffer (kind1), segmentTimelineGenerator (kind2: add/start/drop/resize/generate with MPD read back from disk) and channel.receivedSegData with real init segments (kind3): exhaustive short sequences, all interleavings of T<=3 tracks x M<=4 segments with and without per-track order (sampled where > 400), gaps, duplicates, late tracks, jumps >= window, windows 2..8 and timeShiftBufferDepth 1..90 s, several segment durations; distinct = distinct (kind, window, tracks, op list); non-trivial = at least 3 operations executed"
	return nil
}
