package main

import (
	"bytes"
	"encoding/binary"
	"errors"
	"fmt"
	"io"
	"math/rand"
	"os"
	"strings"
	"time"

	"github.com/Dash-Industry-Forum/livesim2/pkg/chunkparser"
	"verifharness/lib"
)

func main() { lib.Main("C18", runC18) }

// schedReader is an io.Reader that follows a schedule of read sizes.
type schedReader struct {
	data    []byte
	pos     int
	sched   []int
	k       int
	eofData bool
	hard    bool
	kind    int
	zeros   int // zero-byte reads (0, nil) before every read that returns data; io.Reader allows them
	zleft   int
	// a reader whose error does not repeat: once the error has been returned, further reads deliver rest and
	// then io.EOF (a parser that returns the error at once never sees them)
	once bool
	gave bool
	rest []byte
}

var errHard = errors.New("verif: hard read error")
var errWrapped = fmt.Errorf("verif: wrapped: %w", io.ErrUnexpectedEOF)

// hardErr: the error of a failing reader. Besides a private error value, the errors that real
// request bodies return when an upload is cut off (net/http: io.ErrUnexpectedEOF) or torn down.
func hardErr(kind int) error {
	switch kind {
	case 1:
		return io.ErrUnexpectedEOF
	case 2:
		return io.ErrClosedPipe
	case 3:
		return errWrapped
	}
	return errHard
}

func (r *schedReader) endErr() error {
	if r.hard {
		return hardErr(r.kind)
	}
	return io.EOF
}

func (r *schedReader) Read(p []byte) (int, error) {
	if r.zeros > 0 && len(p) > 0 {
		if r.zleft > 0 {
			r.zleft--
			return 0, nil
		}
		r.zleft = r.zeros
	}
	if r.pos >= len(r.data) {
		if r.once && r.gave {
			if len(r.rest) == 0 {
				return 0, io.EOF
			}
			n := copy(p, r.rest)
			r.rest = r.rest[n:]
			return n, nil
		}
		r.gave = true
		return 0, r.endErr()
	}
	want := len(p)
	if r.k < len(r.sched) {
		s := r.sched[r.k]
		if s < 1 {
			s = 1
		}
		if s < want {
			want = s
		}
	}
	r.k++
	if want > len(r.data)-r.pos {
		want = len(r.data) - r.pos
	}
	copy(p, r.data[r.pos:r.pos+want])
	r.pos += want
	if r.pos >= len(r.data) && r.eofData {
		r.gave = true
		return want, r.endErr()
	}
	return want, nil
}

type c18cb struct {
	Start  uint32
	IsInit bool
	Data   []byte
}

type c18in struct {
	Stream  []byte   `json:"stream"`
	Sched   []int    `json:"sched"`
	EOFData bool     `json:"eof_with_data"`
	Hard    bool     `json:"hard_error"`
	Kind    int      `json:"hard_error_kind,omitempty"` // 0 private error value, 1 io.ErrUnexpectedEOF, 2 io.ErrClosedPipe, 3 wrapped io.ErrUnexpectedEOF
	CbFail  int      `json:"cb_fail"`                   // -1 none
	CbKind  int      `json:"cb_error_kind,omitempty"`   // 0 private error value, 1 io.EOF, 2 wrapped io.EOF, 3 io.ErrUnexpectedEOF
	BufSize int      `json:"initial_buf"`
	Boxes   []c18box `json:"boxes,omitempty"` // when the stream was built from well-formed boxes
	NoModel bool     `json:"oracle_only,omitempty"` // large stream: judged by the oracle, not evaluated in Coq
	Zeros   int      `json:"zero_reads,omitempty"`  // (0, nil) reads before every read with data (no-ops for the model)
	Once    bool     `json:"error_once,omitempty"`  // the read error is returned once; later reads deliver Rest, then io.EOF
	Rest    []byte   `json:"rest_after_error,omitempty"`
}

type c18box struct {
	Type    string `json:"type"`
	Payload int    `json:"payload_len"`
}

type c18obs struct {
	Cbs []c18cb
	Res int // 0 nil 1 read error 2 callback error 3 other error 8 hang 9 panic
	Err string
}

var errCb = errors.New("verif: callback error")
var errCbWrappedEOF = fmt.Errorf("verif: sink ended: %w", io.EOF)

// cbErr: the error of a failing callback. A callback that forwards or decodes the chunk may well return
// io.EOF or an error wrapping it (mp4.DecodeFile on a cut chunk does); it is a callback error all the same.
func cbErr(kind int) error {
	switch kind {
	case 1:
		return io.EOF
	case 2:
		return errCbWrappedEOF
	case 3:
		return io.ErrUnexpectedEOF
	}
	return errCb
}

func c18run(in c18in) c18obs {
	done := make(chan c18obs, 1)
	go func() {
		var obs c18obs
		defer func() {
			if rec := recover(); rec != nil {
				done <- c18obs{Res: 9, Err: fmt.Sprint("panic: ", rec)}
			}
		}()
		r := &schedReader{data: in.Stream, sched: in.Sched, eofData: in.EOFData, hard: in.Hard, kind: in.Kind, zeros: in.Zeros, zleft: in.Zeros, once: in.Once, rest: append([]byte(nil), in.Rest...)}
		var buf []byte
		if in.BufSize > 0 {
			buf = make([]byte, in.BufSize)
		}
		n := 0
		cb := func(cd chunkparser.ChunkData) error {
			d := make([]byte, len(cd.Data))
			copy(d, cd.Data)
			obs.Cbs = append(obs.Cbs, c18cb{cd.Start, cd.IsInitSegment, d})
			n++
			if in.CbFail >= 0 && n-1 == in.CbFail {
				return cbErr(in.CbKind)
			}
			return nil
		}
		p := chunkparser.NewMP4ChunkParser(r, buf, cb)
		err := p.Parse()
		switch {
		case err == nil:
			obs.Res = 0
		case in.Hard && errors.Is(err, hardErr(in.Kind)):
			obs.Res = 1
		case in.CbFail >= 0 && errors.Is(err, cbErr(in.CbKind)):
			obs.Res = 2
		default:
			obs.Res = 3
		}
		if err != nil {
			obs.Err = err.Error()
		}
		done <- obs
	}()
	select {
	case o := <-done:
		return o
	case <-time.After(2 * time.Second):
		return c18obs{Res: 8, Err: "hang: Parse did not return within 2 s"}
	}
}

func mkbox(typ string, payload []byte) []byte {
	b := make([]byte, 8+len(payload))
	binary.BigEndian.PutUint32(b, uint32(8+len(payload)))
	copy(b[4:], typ)
	copy(b[8:], payload)
	return b
}

func rawbox(size uint32, typ string, payload []byte) []byte {
	b := make([]byte, 8+len(payload))
	binary.BigEndian.PutUint32(b, size)
	copy(b[4:], typ)
	copy(b[8:], payload)
	return b
}

// expectedChunks: the property's statement evaluated on the box list the stream was built from.
func expectedChunks(boxes [][]byte, types []string) []c18cb {
	var out []c18cb
	var cur []byte
	start := uint32(0)
	isInit := false
	for i, b := range boxes {
		cur = append(cur, b...)
		if types[i] == "moov" {
			isInit = true
		}
		if types[i] == "mdat" {
			out = append(out, c18cb{start, isInit, cur})
			start += uint32(len(cur))
			cur = nil
		}
	}
	if len(cur) > 0 {
		out = append(out, c18cb{start, isInit, cur})
	}
	return out
}

// maxLegalSize walks the size fields as the parser will and returns the largest size that is
// accepted while exceeding the stream: the parser allocates that much, so such inputs are skipped
// (a legal huge size is not an error, it only costs memory).
func maxLegalSize(s []byte) int {
	pos, worst := 0, 0
	for pos+8 <= len(s) {
		size := int(binary.BigEndian.Uint32(s[pos:]))
		if size < 8 {
			break
		}
		if pos+size > 1<<32-1 {
			break // rejected by the parser: the position would wrap
		}
		if pos+size > len(s) {
			if size > worst {
				worst = size
			}
			break
		}
		pos += size
	}
	return worst
}

func sameCbs(a, b []c18cb) bool {
	if len(a) != len(b) {
		return false
	}
	for i := range a {
		if a[i].Start != b[i].Start || a[i].IsInit != b[i].IsInit || !bytes.Equal(a[i].Data, b[i].Data) {
			return false
		}
	}
	return true
}

func compositions(n int, f func(parts []int)) {
	// all 2^(n-1) compositions of n
	for mask := 0; mask < 1<<(n-1); mask++ {
		parts := []int{}
		cur := 1
		for i := 0; i < n-1; i++ {
			if mask&(1<<i) != 0 {
				parts = append(parts, cur)
				cur = 1
			} else {
				cur++
			}
		}
		parts = append(parts, cur)
		f(parts)
	}
}

func runC18(c *lib.Ctx) error {
	if c.Replay != "" {
		return replayC18(c)
	}
	rng := rand.New(rand.NewSource(c.Seed))
	var ins []c18in
	boxTypes := []string{"moof", "mdat", "moov", "styp", "free", "emsg", "ftyp", "mdat", "moof", "prft"}

	randPayload := func(n int) []byte {
		p := make([]byte, n)
		for i := range p {
			p[i] = byte(rng.Intn(256))
		}
		return p
	}
	// payload for malformed streams: the parser may read a size field at any offset of it, and a
	// legal huge size only makes it allocate; bytes in {0,1} keep every such size below 17 MB
	lowPayload := func(n int) []byte {
		p := make([]byte, n)
		for i := range p {
			if rng.Intn(8) == 0 {
				p[i] = 1
			}
		}
		return p
	}
	// a well-formed stream from a list of boxes
	wfStream := func(nb int, maxPayload int) ([]byte, []c18box, [][]byte, []string) {
		var s []byte
		var meta []c18box
		var bl [][]byte
		var ty []string
		for i := 0; i < nb; i++ {
			t := boxTypes[rng.Intn(len(boxTypes))]
			pl := rng.Intn(maxPayload + 1)
			if rng.Intn(4) == 0 {
				pl = 0
			}
			b := mkbox(t, randPayload(pl))
			s = append(s, b...)
			meta = append(meta, c18box{t, pl})
			bl = append(bl, b)
			ty = append(ty, t)
		}
		return s, meta, bl, ty
	}
	randSched := func(n int) []int {
		switch rng.Intn(5) {
		case 0:
			return nil // everything at once
		case 1:
			s := make([]int, n+2)
			for i := range s {
				s[i] = 1
			}
			return s
		default:
			var s []int
			for tot := 0; tot < n+4; {
				k := 1 + rng.Intn(1+rng.Intn(24))
				s = append(s, k)
				tot += k
			}
			return s
		}
	}
	bufSizes := []int{0, 1, 8, 16, 1024}
	expect := map[int][]c18cb{} // index into ins -> expected chunks (well-formed streams)
	group := map[int]int{}      // index into ins -> group id (same stream+cbfail+hard)
	gid := 0
	add := func(in c18in, g int, exp []c18cb) {
		if maxLegalSize(in.Stream) > 1<<25 {
			c.Count("skipped-would-allocate")
			return
		}
		ins = append(ins, in)
		group[len(ins)-1] = g
		if exp != nil {
			expect[len(ins)-1] = exp
		}
	}

	nWF, nSched := 60, 5
	nMal := 150
	exhaustLen := 10
	if c.Thorough() {
		nWF, nSched, nMal, exhaustLen = 600, 8, 1500, 14
	}
	// 1. well-formed streams, several schedules each
	for i := 0; i < nWF; i++ {
		s, meta, bl, ty := wfStream(1+rng.Intn(7), 40)
		exp := expectedChunks(bl, ty)
		gid++
		for j := 0; j < nSched; j++ {
			add(c18in{Stream: s, Sched: randSched(len(s)), EOFData: rng.Intn(2) == 0, CbFail: -1,
				BufSize: bufSizes[rng.Intn(len(bufSizes))], Boxes: meta}, gid, exp)
			c.Count("wellformed")
		}
		// failing callback
		if len(exp) > 0 && rng.Intn(3) == 0 {
			gid++
			k := rng.Intn(len(exp))
			for j := 0; j < 4; j++ {
				// j: the identity of the callback's error (private value, io.EOF, wrapped io.EOF, io.ErrUnexpectedEOF)
				add(c18in{Stream: s, Sched: randSched(len(s)), EOFData: rng.Intn(2) == 0, CbFail: k, CbKind: j,
					BufSize: bufSizes[rng.Intn(len(bufSizes))], Boxes: meta}, gid, exp[:k+1])
				c.Count(fmt.Sprintf("callback-error/kind-%d", j))
			}
		}
		// hard read error at the end of a truncated copy
		if rng.Intn(3) == 0 {
			cut := rng.Intn(len(s) + 1)
			kind := rng.Intn(4)
			add(c18in{Stream: s[:cut], Sched: randSched(cut), EOFData: rng.Intn(2) == 0, Hard: true, Kind: kind, CbFail: -1}, 0, nil)
			c.Count(fmt.Sprintf("read-error/kind-%d", kind))
		}
	}
	// 2. exhaustive compositions of a short stream (moov-less and with 8-byte boxes at the end)
	for _, s := range [][]byte{
		append(mkbox("mdat", []byte{1, 2}), mkbox("moov", nil)...)[:exhaustLen+0],
		mkbox("moov", []byte{5, 5})[:min(exhaustLen, 10)],
	} {
		gid++
		compositions(len(s), func(parts []int) {
			for _, ed := range []bool{false, true} {
				add(c18in{Stream: s, Sched: append([]int{}, parts...), EOFData: ed, CbFail: -1, BufSize: bufSizes[rng.Intn(3)]}, gid, nil)
				c.Count("exhaustive-composition")
			}
		})
	}
	// 3. truncation at every offset of a 3-box stream
	{
		s := append(append(mkbox("moof", []byte{1, 2, 3}), mkbox("mdat", []byte{4, 5, 6, 7})...), mkbox("free", []byte{8})...)
		for cut := 0; cut <= len(s); cut++ {
			gid++
			for _, ed := range []bool{false, true} {
				add(c18in{Stream: s[:cut], Sched: randSched(cut), EOFData: ed, CbFail: -1}, gid, nil)
				c.Count("truncated")
			}
		}
	}
	// 3b. the reader fails (each kind of error) at every offset of the same stream
	{
		s := append(append(mkbox("moof", []byte{1, 2, 3}), mkbox("mdat", []byte{4, 5, 6, 7})...), mkbox("free", []byte{8})...)
		for cut := 0; cut <= len(s); cut++ {
			kind := 1 + cut%3
			if cut%4 == 0 {
				kind = 0
			}
			add(c18in{Stream: s[:cut], Sched: randSched(cut), EOFData: cut%2 == 0, Hard: true, Kind: kind, CbFail: -1}, 0, nil)
			c.Count(fmt.Sprintf("read-error/kind-%d", kind))
		}
	}
	// 3b'. the error comes together with the last bytes it can deliver and does not repeat: afterwards the reader
	// goes on with the rest of the stream, or reports a clean end. The error must still be returned, whatever the
	// bytes it came with complete (a box header, a box, nothing).
	{
		s := append(append(append(mkbox("styp", []byte{9, 9}), mkbox("moof", []byte{1, 2, 3})...), mkbox("mdat", []byte{4, 5, 6, 7})...), mkbox("free", []byte{8})...)
		for cut := 1; cut <= len(s); cut++ {
			for v := 0; v < 2; v++ {
				kind := (cut + v) % 4
				in := c18in{Stream: s[:cut], Sched: randSched(cut), EOFData: true, Hard: true, Kind: kind, CbFail: -1, Once: true}
				if v == 1 {
					in.Rest = s[cut:]
					in.Sched = []int{cut} // one read delivers everything up to the error
				}
				add(in, 0, nil)
				c.Count(fmt.Sprintf("read-error-once/kind-%d", kind))
			}
		}
	}
	// 3b''. exact coincidences: the total size of chunk k equals the end offset, inside chunk k+1, of a box that is
	// no mdat (a moof of that size; styp + moof adding up to it; a trailing free box of that size). A callback is due
	// at the end of every complete mdat box and nowhere else.
	{
		for a := 0; a <= 6; a++ {
			for b := 0; b <= 3; b++ {
				gid++
				c1 := append(mkbox("moof", make([]byte, a)), mkbox("mdat", bytes.Repeat([]byte{1}, b+1))...)
				L1 := len(c1)
				c2 := append(mkbox("moof", bytes.Repeat([]byte{2}, L1-8)), mkbox("mdat", []byte{3, 3, 3})...) // moof ends at L1
				L2 := len(c2)
				c3 := append(append(mkbox("styp", []byte{4, 4}), mkbox("moof", bytes.Repeat([]byte{5}, L2-10-8))...), mkbox("mdat", []byte{6})...) // styp+moof end at L2
				L3 := len(c3)
				tail := mkbox("free", bytes.Repeat([]byte{7}, L3-8)) // a trailing box of the size of the last chunk
				s := append(append(append(append([]byte{}, c1...), c2...), c3...), tail...)
				for v := 0; v < 2; v++ {
					add(c18in{Stream: s, Sched: randSched(len(s)), EOFData: v == 0, CbFail: -1, BufSize: bufSizes[(a+b+v)%len(bufSizes)]}, gid, nil)
					c.Count("size-coincidence")
				}
			}
		}
	}
	// 3c. large boxes and growing chunks: the buffer has to grow while it is much larger than its content
	// (initial buffers between 1 KiB and the chunk size, a later chunk clearly larger than the first)
	{
		nLarge := 6
		if c.Thorough() {
			nLarge = 40
		}
		bigBufs := []int{0, 1024, 1900, 2500, 3000, 4096, 6000, 12000, 40000}
		for i := 0; i < nLarge; i++ {
			var s []byte
			var bl [][]byte
			var ty []string
			var meta []c18box
			nChunks := 2 + rng.Intn(3)
			size := 1500 + rng.Intn(3000)
			for k := 0; k < nChunks; k++ {
				mo := mkbox("moof", randPayload(40+rng.Intn(200)))
				md := mkbox("mdat", randPayload(size))
				for _, b := range [][]byte{mo, md} {
					s = append(s, b...)
					bl = append(bl, b)
				}
				ty = append(ty, "moof", "mdat")
				meta = append(meta, c18box{"moof", len(mo) - 8}, c18box{"mdat", size})
				switch i % 3 {
				case 0:
					size = size*2 + rng.Intn(2000) // growing
				case 1:
					size = 1500 + rng.Intn(20000)
				}
			}
			exp := expectedChunks(bl, ty)
			gid++
			for _, bs := range bigBufs {
				if !c.Thorough() && rng.Intn(2) == 0 && bs != 2500 {
					continue
				}
				var sch []int
				if rng.Intn(2) == 0 {
					for tot := 0; tot < len(s)+10; {
						k := 1 + rng.Intn(3000)
						sch = append(sch, k)
						tot += k
					}
				}
				add(c18in{Stream: s, Sched: sch, EOFData: rng.Intn(2) == 0, CbFail: -1, BufSize: bs, Boxes: meta, NoModel: true}, gid, exp)
				c.Count("large-boxes")
			}
		}
		// every initial buffer size over a range, on the bundled chunked segment
		if data, err := os.ReadFile("/repo/pkg/chunkparser/testdata/3_chunked.m4s"); err == nil {
			gid++
			step := 97
			if c.Thorough() {
				step = 7
			}
			for bs := 0; bs <= len(data)+1100; bs += step {
				add(c18in{Stream: data, Sched: nil, EOFData: bs%2 == 0, CbFail: -1, BufSize: bs, NoModel: true}, gid, nil)
				c.Count("bundled-vector/initial-buffer-sweep")
			}
		}
	}
	// 3d. readers that interleave zero-byte reads with data (several hundred empty reads over one parse)
	{
		nz := 6
		if c.Thorough() {
			nz = 40
		}
		for i := 0; i < nz; i++ {
			s, meta, bl, ty := wfStream(2+rng.Intn(6), 60)
			exp := expectedChunks(bl, ty)
			gid++
			one := make([]int, len(s)+2)
			for k := range one {
				one[k] = 1 + rng.Intn(3)
			}
			for _, z := range []int{0, 1, 3} {
				add(c18in{Stream: s, Sched: one, EOFData: rng.Intn(2) == 0, CbFail: -1, BufSize: bufSizes[rng.Intn(len(bufSizes))], Boxes: meta, Zeros: z}, gid, exp)
				c.Count(fmt.Sprintf("zero-reads-%d", z))
			}
		}
	}
	// 4. malformed size fields
	sizes := []uint32{0, 1, 2, 3, 4, 5, 6, 7, 9, 12, 100, 1 << 16, 1 << 22}
	for i := 0; i < nMal; i++ {
		var s []byte
		nb := rng.Intn(4)
		for j := 0; j < nb; j++ {
			// no mdat here: the parse position restarts after an mdat, the wrap below needs it to be len(s)
			s = append(s, mkbox([]string{"moof", "free", "styp", "moov"}[rng.Intn(4)], lowPayload(rng.Intn(12)))...)
		}
		var sz uint32
		if len(s) > 0 && rng.Intn(3) == 0 {
			// a size that makes the uint32 position wrap (offset + size >= 2^32); smaller huge
			// sizes are legal for the parser and would only make it allocate gigabytes
			sz = uint32(1<<32 - 1 - rng.Intn(len(s)))
		} else {
			sz = sizes[rng.Intn(len(sizes))]
		}
		s = append(s, rawbox(sz, boxTypes[rng.Intn(len(boxTypes))], lowPayload(rng.Intn(20)))...)
		if rng.Intn(2) == 0 {
			s = append(s, mkbox("mdat", lowPayload(rng.Intn(6)))...)
		}
		gid++
		for j := 0; j < 2; j++ {
			add(c18in{Stream: s, Sched: randSched(len(s)), EOFData: rng.Intn(2) == 0, CbFail: -1, BufSize: bufSizes[rng.Intn(len(bufSizes))]}, gid, nil)
			c.Count(fmt.Sprintf("malformed-size"))
		}
	}
	// 4b. a size that wraps the uint32 position exactly back onto the start of an earlier box: a parser
	// that lets the position wrap walks the same boxes again and never returns
	nWrapBack := 3
	if c.Thorough() {
		nWrapBack = 12
	}
	for i := 0; i < nWrapBack; i++ {
		var s []byte
		var starts []int
		nb := 2 + rng.Intn(3)
		for j := 0; j < nb; j++ {
			starts = append(starts, len(s))
			s = append(s, mkbox([]string{"moof", "free", "styp", "moov"}[rng.Intn(4)], lowPayload(rng.Intn(12)))...)
		}
		t := starts[rng.Intn(len(starts))]
		sz := uint32(uint64(1<<32) - uint64(len(s)) + uint64(t))
		s = append(s, rawbox(sz, "free", lowPayload(rng.Intn(8)))...)
		gid++
		add(c18in{Stream: s, Sched: randSched(len(s)), EOFData: i%2 == 0, CbFail: -1, BufSize: bufSizes[rng.Intn(len(bufSizes))]}, gid, nil)
		c.Count("malformed-size-wraps-back")
	}
	// 5. random bytes
	for i := 0; i < nMal/3; i++ {
		// headers with small size fields that do not match the actual payload lengths
		var s []byte
		for k := rng.Intn(5); k >= 0; k-- {
			s = append(s, rawbox(uint32(rng.Intn(40)), boxTypes[rng.Intn(len(boxTypes))], lowPayload(rng.Intn(16)))...)
		}
		s = s[:rng.Intn(len(s)+1)]
		gid++
		for j := 0; j < 2; j++ {
			add(c18in{Stream: s, Sched: randSched(len(s)), EOFData: rng.Intn(2) == 0, CbFail: -1}, gid, nil)
			c.Count("random-bytes")
		}
	}
	// 6. bundled test vectors (real init segment and chunked media segment)
	for _, name := range []string{"video_init.mp4", "audio_init.mp4", "3_chunked.m4s"} {
		data, err := os.ReadFile("/repo/pkg/chunkparser/testdata/" + name)
		if err != nil {
			c.Res.Notes = append(c.Res.Notes, "bundled vector missing: "+name)
			continue
		}
		gid++
		n := 2
		if c.Thorough() {
			n = 6
		}
		for j := 0; j < n; j++ {
			var sch []int
			for tot := 0; tot < len(data)+10; {
				k := 1 + rng.Intn(700)
				sch = append(sch, k)
				tot += k
			}
			if j == 0 {
				sch = nil
			}
			add(c18in{Stream: data, Sched: sch, EOFData: j%2 == 1, CbFail: -1, BufSize: 1024}, gid, nil)
			c.Count("bundled-vector")
		}
	}

	if err := runRecv(c); err != nil {
		return err
	}
	// run the implementation
	obs := make([]c18obs, len(ins))
	hangs := 0
	for i, in := range ins {
		obs[i] = c18run(in)
		if obs[i].Res == 8 {
			hangs++
			if hangs >= 3 { // every hang leaves a spinning goroutine behind; three replays are enough
				c.Res.Notes = append(c.Res.Notes, fmt.Sprintf("stopped after 3 hangs; %d of %d cases were run", i+1, len(ins)))
				ins, obs = ins[:i+1], obs[:i+1]
				break
			}
		}
	}
	// oracle: the property's own text on the implementation's output
	first := map[int]int{}
	distinct := map[string]bool{}
	for i, in := range ins {
		id := fmt.Sprintf("%d", i)
		o := obs[i]
		c.Res.Inputs[id] = in
		if o.Res == 8 {
			c.Fail(id, "hang", o.Err, in)
			continue
		}
		if o.Res == 9 {
			c.Fail(id, "panic", o.Err, in)
			continue
		}
		if o.Res == 0 && in.CbFail < 0 {
			var cat []byte
			off := uint32(0)
			for _, cb := range o.Cbs {
				if cb.Start != off {
					c.Fail(id, "start-offset", fmt.Sprintf("callback start %d, running offset %d", cb.Start, off), in)
				}
				off += uint32(len(cb.Data))
				cat = append(cat, cb.Data...)
			}
			if !bytes.Equal(cat, in.Stream) {
				c.Fail(id, "concat", fmt.Sprintf("concatenated callback data (%d bytes) differs from the input (%d bytes)", len(cat), len(in.Stream)), in)
			}
		}
		if in.Hard && o.Res != 1 && o.Res != 3 {
			c.Fail(id, "read-error-lost", fmt.Sprintf("reader failed but Parse returned class %d", o.Res), in)
		}
		if in.CbFail >= 0 && len(o.Cbs) > in.CbFail && o.Res != 2 {
			c.Fail(id, "callback-error-lost", fmt.Sprintf("callback %d failed but Parse returned class %d", in.CbFail, o.Res), in)
		}
		if exp, ok := expect[i]; ok {
			if !sameCbs(exp, o.Cbs) {
				c.Fail(id, "mdat-boundary", fmt.Sprintf("callbacks differ from the chunking of the box list: got %d callbacks, expected %d", len(o.Cbs), len(exp)), in)
			}
		}
		if g := group[i]; g != 0 {
			if j, ok := first[g]; ok {
				if obs[j].Res != o.Res || !sameCbs(obs[j].Cbs, o.Cbs) {
					c.Fail(id, "schedule-dependence", fmt.Sprintf("same stream, other read sizes/EOF style/buffer (case %d): different callbacks or result", j), in)
				}
			} else {
				first[g] = i
			}
		}
		if len(o.Cbs) >= 1 && len(in.Stream) > 8 {
			distinct[string(in.Stream)+fmt.Sprint(in.Sched, in.EOFData, in.CbFail, in.Hard)] = true
		}
	}
	c.Res.Evaluations = len(ins)
	c.Res.DistinctNontrivial = len(distinct)
	c.Res.Rule = "streams: well-formed box sequences (1-7 boxes incl. moov/mdat), exhaustive compositions of short streams, every truncation of a 3-box stream, malformed/wrapping size fields, random bytes, bundled vectors; each with several read schedules, both EOF styles, initial buffers {0,1,8,16,1024}, failing callbacks, failing readers. distinct = distinct (stream, schedule, eof style, failure injection); non-trivial = stream longer than one header and at least one callback made"
	for i := 0; i < len(ins) && i < 3; i++ {
		c.Sample(map[string]any{"input": ins[i*7%len(ins)], "result_class": obs[i*7%len(ins)].Res, "callbacks": len(obs[i*7%len(ins)].Cbs)})
	}

	// cases for the model, sharded
	shard := 400
	for s := 0; s*shard < len(ins); s++ {
		var terms []string
		for i := s * shard; i < (s+1)*shard && i < len(ins); i++ {
			if ins[i].NoModel {
				continue
			}
			terms = append(terms, c18term(i, ins[i], obs[i]))
		}
		c.WriteCases(fmt.Sprintf("cases_C18_%d.v", s),
			lib.CasesFile("From Verif Require Import GoSem ChunkParser CorrC18.", "c18case", "", terms, "model_view"))
	}
	return nil
}

func c18term(i int, in c18in, o c18obs) string {
	var cbs []string
	for _, cb := range o.Cbs {
		// express the data as a slice of the stream when it is one
		off := int(cb.Start)
		d := ""
		if off >= 0 && off+len(cb.Data) <= len(in.Stream) && bytes.Equal(in.Stream[off:off+len(cb.Data)], cb.Data) {
			d = fmt.Sprintf("ODSlice %d %d", off, len(cb.Data))
		} else {
			d = "ODRaw " + lib.Zbytes(cb.Data)
		}
		cbs = append(cbs, fmt.Sprintf("(%d, %s, %s)", cb.Start, lib.Cbool(cb.IsInit), d))
	}
	cbf := "None"
	if in.CbFail >= 0 {
		cbf = fmt.Sprintf("(Some %d%%nat)", in.CbFail)
	}
	res := o.Res
	return fmt.Sprintf("{| c_id := %d; c_stream := %s; c_sched := %s; c_eofdata := %s; c_hard := %s; c_cbfail := %s; o_cbs := [%s]; o_res := %d |}",
		i, lib.Zbytes(in.Stream), lib.ZlistInt(in.Sched), lib.Cbool(in.EOFData), lib.Cbool(in.Hard), cbf, strings.Join(cbs, "; "), res)
}

func replayC18(c *lib.Ctx) error {
	in, err := lib.LoadReplayInput[c18in](c.Replay)
	if err != nil {
		return err
	}
	o := c18run(in)
	fmt.Printf("replay C18: result class %d (%s), %d callbacks\n", o.Res, o.Err, len(o.Cbs))
	var cat []byte
	for i, cb := range o.Cbs {
		fmt.Printf("  callback %d: start=%d init=%v len=%d\n", i, cb.Start, cb.IsInit, len(cb.Data))
		cat = append(cat, cb.Data...)
	}
	if o.Res == 8 {
		c.Fail("replay", "hang", o.Err, in)
	}
	if o.Res == 9 {
		c.Fail("replay", "panic", o.Err, in)
	}
	if o.Res == 0 && in.CbFail < 0 && !bytes.Equal(cat, in.Stream) {
		c.Fail("replay", "concat", "concatenated callback data differs from the input", in)
	}
	return nil
}
