package main

// C18 at the receiver: the anchor "chunkparser.NewMP4ChunkParser(req.Body, ...) in SegmentHandlerFunc".
// One in-process ingest receiver behind a real HTTP server; bundled init and media segments are
// uploaded over raw TCP connections with different body deliveries (Content-Length or chunked
// transfer, writes split at arbitrary offsets with pauses, one byte at a time for a short one),
// with OVERLAPPING uploads of the same track (segment N paused mid-way while N+1 or a resent init
// segment is sent completely on another connection, then N is finished) and of different tracks,
// and with bodies cut short (fewer bytes than Content-Length, chunked body without terminator).
// Oracle (the property's text): every upload answered 2xx is stored byte for byte (the concatenated
// callback data is the request body, however the bytes arrive and whatever other uploads do
// meanwhile); a cut body is not answered 2xx and is not presented as a complete segment; every
// upload terminates (watchdog).

import (
	"bufio"
	"bytes"
	"context"
	"fmt"
	"io"
	"log/slog"
	"math/rand"
	"net"
	"net/http"
	"net/http/httptest"
	"os"
	"path/filepath"
	"time"

	app "github.com/Dash-Industry-Forum/livesim2/cmd/cmaf-ingest-receiver/app"
	"github.com/Eyevinn/mp4ff/mp4"
	"verifharness/lib"
)

const recvTestdata = "/repo/cmd/cmaf-ingest-receiver/app/testdata/zero_3.84s/"

type recvTrack struct {
	Name string
	Ext  string
	init []byte
	seg0 []byte
	dur  uint64
}

// how one request body is delivered
type recvDelivery struct {
	Chunked bool  `json:"chunked"`
	Splits  []int `json:"splits"`  // sizes of the successive writes (the rest in one write)
	PauseMS int   `json:"pause"`   // pause between writes
	HoldAt  int   `json:"hold_at"` // >= 0: after this many body bytes wait until released (the overlapped upload)
	CutAt   int   `json:"cut_at"`  // >= 0: stop after this many body bytes and close the sending side
}

type recvUpload struct {
	Track int          `json:"track"`
	Init  bool         `json:"init"`
	Seq   int          `json:"seq"`
	Del   recvDelivery `json:"delivery"`
	// BigMiB > 0: a segment of that size built here, as Frags moof/mdat pairs (0 = one)
	BigMiB int `json:"big_mib,omitempty"`
	Frags  int `json:"frags,omitempty"`
}

type recvInput struct {
	Kind    string       `json:"kind"`
	Uploads []recvUpload `json:"uploads"` // [0] is the overlapped one when there are two
}

type recvResult struct {
	status   int // 0: no response
	err      string
	timedOut bool
}

func recvLoadTrack(name, ext string) (*recvTrack, error) {
	t := &recvTrack{Name: name, Ext: ext}
	var err error
	if t.init, err = os.ReadFile(filepath.Join(recvTestdata, name, "init_org"+ext)); err != nil {
		return nil, err
	}
	if t.seg0, err = os.ReadFile(filepath.Join(recvTestdata, name, "0"+ext)); err != nil {
		return nil, err
	}
	f, err := mp4.DecodeFile(bytes.NewReader(t.seg0))
	if err != nil {
		return nil, err
	}
	fi, err := mp4.DecodeFile(bytes.NewReader(t.init))
	if err != nil {
		return nil, err
	}
	moof := f.Segments[0].Fragments[0].Moof
	def := fi.Init.Moov.Mvex.Trex.DefaultSampleDuration
	if moof.Traf.Tfhd.DefaultSampleDuration != 0 {
		def = moof.Traf.Tfhd.DefaultSampleDuration
	}
	t.dur = moof.Traf.Trun.Duration(def)
	return t, nil
}

// segment seq of the track: the bundled one with number and time rewritten (time = number * duration,
// so the receiver stores the uploaded bytes unchanged); the payload is made different per number
func (t *recvTrack) segment(seq int) []byte {
	f, err := mp4.DecodeFile(bytes.NewReader(t.seg0))
	if err != nil {
		panic(err)
	}
	seg := f.Segments[0]
	for _, fr := range seg.Fragments {
		fr.Moof.Mfhd.SequenceNumber = uint32(seq)
		fr.Moof.Traf.Tfdt.SetBaseMediaDecodeTime(uint64(seq) * t.dur)
		if fr.Mdat != nil {
			for i := range fr.Mdat.Data {
				fr.Mdat.Data[i] ^= byte(seq*31 + i)
			}
		}
	}
	var buf bytes.Buffer
	if err := seg.Encode(&buf); err != nil {
		panic(err)
	}
	return buf.Bytes()
}

// a large segment: frags fragments with one sample each, mib MiB of pseudo-random payload in total
func (t *recvTrack) bigSegment(seq, mib, frags int) []byte {
	fi, err := mp4.DecodeFile(bytes.NewReader(t.init))
	if err != nil {
		panic(err)
	}
	if frags < 1 {
		frags = 1
	}
	seg := mp4.NewMediaSegment()
	rng := rand.New(rand.NewSource(int64(seq)*7919 + int64(mib)))
	per := mib << 20 / frags
	tm := uint64(seq) * t.dur
	for k := 0; k < frags; k++ {
		frag, err := mp4.CreateFragment(uint32(seq), fi.Init.Moov.Trak.Tkhd.TrackID)
		if err != nil {
			panic(err)
		}
		data := make([]byte, per+k)
		rng.Read(data)
		d := uint32(t.dur / uint64(frags))
		frag.AddFullSample(mp4.FullSample{Sample: mp4.Sample{Flags: mp4.SyncSampleFlags, Dur: d, Size: uint32(len(data))}, DecodeTime: tm, Data: data})
		tm += uint64(d)
		seg.AddFragment(frag)
	}
	var buf bytes.Buffer
	if err := seg.Encode(&buf); err != nil {
		panic(err)
	}
	return buf.Bytes()
}

// one upload over its own TCP connection; release (may be nil) is waited for at Del.HoldAt, reached (may
// be nil) is closed when the hold point is reached
func recvPut(addr, path string, body []byte, d recvDelivery, reached chan<- struct{}, release <-chan struct{}) recvResult {
	conn, err := net.DialTimeout("tcp", addr, 2*time.Second)
	if err != nil {
		return recvResult{err: err.Error()}
	}
	defer conn.Close()
	_ = conn.SetDeadline(time.Now().Add(8*time.Second + time.Duration(len(body)>>20)*time.Second))
	hdr := fmt.Sprintf("PUT %s HTTP/1.1\r\nHost: %s\r\nConnection: close\r\n", path, addr)
	if d.Chunked {
		hdr += "Transfer-Encoding: chunked\r\n\r\n"
	} else {
		hdr += fmt.Sprintf("Content-Length: %d\r\n\r\n", len(body))
	}
	if _, err := conn.Write([]byte(hdr)); err != nil {
		return recvResult{err: err.Error()}
	}
	send := func(p []byte) error {
		if len(p) == 0 {
			return nil
		}
		if d.Chunked {
			p = append(append([]byte(fmt.Sprintf("%x\r\n", len(p))), p...), '\r', '\n')
		}
		_, err := conn.Write(p)
		return err
	}
	limit := len(body)
	if d.CutAt >= 0 && d.CutAt < limit {
		limit = d.CutAt
	}
	// write boundaries: the splits, the hold point, the end
	var bounds []int
	pos := 0
	for _, s := range d.Splits {
		pos += s
		if pos < limit {
			bounds = append(bounds, pos)
		}
	}
	bounds = append(bounds, limit)
	pos = 0
	held := false
	for _, b := range bounds {
		for pos < b {
			end := b
			if d.HoldAt >= 0 && !held && pos < d.HoldAt && d.HoldAt < end {
				end = d.HoldAt
			}
			if err := send(body[pos:end]); err != nil {
				return recvResult{err: err.Error()}
			}
			pos = end
			if d.HoldAt >= 0 && !held && pos >= d.HoldAt {
				held = true
				time.Sleep(25 * time.Millisecond) // let the handler take in what was sent
				if reached != nil {
					close(reached)
				}
				if release != nil {
					select {
					case <-release:
					case <-time.After(6 * time.Second):
					}
				}
			}
			if d.PauseMS > 0 {
				time.Sleep(time.Duration(d.PauseMS) * time.Millisecond)
			}
		}
	}
	if d.CutAt >= 0 {
		if tc, ok := conn.(*net.TCPConn); ok {
			_ = tc.CloseWrite()
		}
	} else if d.Chunked {
		if _, err := conn.Write([]byte("0\r\n\r\n")); err != nil {
			return recvResult{err: err.Error()}
		}
	}
	resp, err := http.ReadResponse(bufio.NewReader(conn), nil)
	if err != nil {
		if ne, ok := err.(net.Error); ok && ne.Timeout() {
			return recvResult{err: err.Error(), timedOut: true}
		}
		return recvResult{err: err.Error()}
	}
	_, _ = io.Copy(io.Discard, resp.Body)
	resp.Body.Close()
	return recvResult{status: resp.StatusCode}
}

func recvSplits(rng *rand.Rand, n, k int) []int {
	var l []int
	for i := 0; i < k; i++ {
		l = append(l, 1+rng.Intn(n/k+1))
	}
	return l
}

func runRecv(c *lib.Ctx) error {
	if c.Replay != "" {
		return nil
	}
	slog.SetDefault(slog.New(slog.NewTextHandler(io.Discard, nil)))
	rng := rand.New(rand.NewSource(c.Seed + 1818))
	root := ""
	if st, err := os.Stat("/dev/shm"); err == nil && st.IsDir() {
		root = "/dev/shm"
	}
	storage, err := os.MkdirTemp(root, "c18recv-")
	if err != nil {
		return err
	}
	defer os.RemoveAll(storage)
	ctx, cancel := context.WithCancel(context.Background())
	defer cancel()
	rcv, err := app.VerifNewReceiver(ctx, storage, "/upload", 60, nil)
	if err != nil {
		return err
	}
	srv := httptest.NewServer(rcv.Router)
	defer srv.Close()
	addr := srv.Listener.Addr().String()
	const ch = "c18"
	var tracks []*recvTrack
	for _, t := range [][2]string{{"video-500Kbps", ".cmfv"}, {"video-800Kbps", ".cmfv"}, {"audio-nor-128Kbps", ".cmfa"}} {
		tr, err := recvLoadTrack(t[0], t[1])
		if err != nil {
			return err
		}
		tracks = append(tracks, tr)
	}
	bigCache := map[[2]int][]byte{}
	body := func(u recvUpload) []byte {
		if u.Init {
			return tracks[u.Track].init
		}
		if u.BigMiB > 0 {
			k := [2]int{u.Track, u.Seq}
			if b, ok := bigCache[k]; ok {
				return b
			}
			b := tracks[u.Track].bigSegment(u.Seq, u.BigMiB, u.Frags)
			bigCache[k] = b
			return b
		}
		return tracks[u.Track].segment(u.Seq)
	}
	path := func(u recvUpload) string {
		t := tracks[u.Track]
		if u.Init {
			return fmt.Sprintf("/upload/%s/%s/init%s", ch, t.Name, t.Ext)
		}
		return fmt.Sprintf("/upload/%s/%s/%d%s", ch, t.Name, u.Seq, t.Ext)
	}
	stored := func(u recvUpload) string {
		t := tracks[u.Track]
		if u.Init {
			return filepath.Join(storage, ch, t.Name, "init_org"+t.Ext)
		}
		return filepath.Join(storage, ch, t.Name, fmt.Sprintf("%d%s", u.Seq, t.Ext))
	}
	nr := 0
	evals := 0
	// check one finished upload against the property
	check := func(id string, in recvInput, u recvUpload, r recvResult) {
		evals++
		b := body(u)
		if r.timedOut {
			c.Fail(id, "recv:hang", fmt.Sprintf("upload %s got no answer within the watchdog time", path(u)), in)
			return
		}
		ok2xx := r.status >= 200 && r.status < 300
		// cut: fewer bytes than announced, or a chunked body that ends without its terminating chunk
		if u.Del.CutAt >= 0 && (u.Del.CutAt < len(b) || u.Del.Chunked) {
			if ok2xx {
				c.Fail(id, "recv:cut-body-accepted", fmt.Sprintf("upload %s was cut after %d of %d bytes and answered %d", path(u), u.Del.CutAt, len(b), r.status), in)
			}
			if !u.Init {
				rcv.Sync(ch)
				if st, ok := rcv.ChannelState(ch); ok {
					if buf, ok := st.Gen.Buffers[tracks[u.Track].Name]; ok {
						for _, it := range buf.Items[:min(int(buf.NrItems), len(buf.Items))] {
							if int(it.SeqNr) == u.Seq {
								c.Fail(id, "recv:cut-body-presented-complete", fmt.Sprintf("segment %d of %s was cut after %d of %d bytes but is registered as a complete segment", u.Seq, tracks[u.Track].Name, u.Del.CutAt, len(b)), in)
							}
						}
					}
				}
			}
			return
		}
		if !ok2xx {
			c.Fail(id, fmt.Sprintf("recv:valid-upload-refused:%d", r.status), fmt.Sprintf("complete upload %s (%d bytes) answered %d %s", path(u), len(b), r.status, r.err), in)
			return
		}
		got, err := os.ReadFile(stored(u))
		if err != nil {
			c.Fail(id, "recv:not-stored", fmt.Sprintf("upload %s answered %d but %s is missing", path(u), r.status, stored(u)), in)
			return
		}
		if !bytes.Equal(got, b) {
			at := 0
			for at < len(got) && at < len(b) && got[at] == b[at] {
				at++
			}
			c.Fail(id, "recv:stored-differs", fmt.Sprintf("upload %s answered %d; stored %d bytes, uploaded %d bytes, first difference at offset %d", path(u), r.status, len(got), len(b), at), in)
		}
	}
	single := func(kind string, u recvUpload) {
		nr++
		id := fmt.Sprintf("recv%d", nr)
		in := recvInput{Kind: kind, Uploads: []recvUpload{u}}
		c.Res.Inputs[id] = in
		c.Count("recv:" + kind)
		check(id, in, u, recvPut(addr, path(u), body(u), u.Del, nil, nil))
	}
	// a is paused at its hold point, b is sent completely, then a is finished
	overlap := func(kind string, a, b recvUpload) {
		nr++
		id := fmt.Sprintf("recv%d", nr)
		in := recvInput{Kind: kind, Uploads: []recvUpload{a, b}}
		c.Res.Inputs[id] = in
		c.Count("recv:" + kind)
		reached, release := make(chan struct{}), make(chan struct{})
		resA := make(chan recvResult, 1)
		go func() { resA <- recvPut(addr, path(a), body(a), a.Del, reached, release) }()
		select {
		case <-reached:
		case <-time.After(6 * time.Second):
		}
		rb := recvPut(addr, path(b), body(b), b.Del, nil, nil)
		close(release)
		var ra recvResult
		select {
		case ra = <-resA:
		case <-time.After(10 * time.Second):
			ra = recvResult{timedOut: true}
		}
		check(id, in, b, rb)
		check(id, in, a, ra)
	}
	none := recvDelivery{HoldAt: -1, CutAt: -1}
	seq := []int{100, 100, 100} // next number per track
	next := func(t int) int { seq[t]++; return seq[t] }

	// init segments: plain, and one byte at a time (Content-Length and chunked)
	single("init-plain", recvUpload{Track: 0, Init: true, Del: none})
	{
		d := none
		d.Splits = make([]int, len(tracks[1].init))
		for i := range d.Splits {
			d.Splits[i] = 1
		}
		single("init-byte-by-byte", recvUpload{Track: 1, Init: true, Del: d})
		d.Chunked = true
		single("init-byte-by-byte-chunked", recvUpload{Track: 2, Init: true, Del: d})
	}
	rounds := 2
	if c.Thorough() {
		rounds = 12
	}
	for r := 0; r < rounds; r++ {
		// deliveries of single uploads
		for t := range tracks {
			n := len(tracks[t].seg0)
			single("media-content-length", recvUpload{Track: t, Seq: next(t), Del: none})
			d := none
			d.Splits, d.PauseMS = recvSplits(rng, n, 3+rng.Intn(5)), 1
			single("media-split-writes", recvUpload{Track: t, Seq: next(t), Del: d})
			d.Chunked = true
			d.Splits = recvSplits(rng, n, 2+rng.Intn(20))
			single("media-chunked", recvUpload{Track: t, Seq: next(t), Del: d})
			d = none
			d.Chunked = true
			single("media-chunked-one-chunk", recvUpload{Track: t, Seq: next(t), Del: d})
		}
		// overlapping uploads of the same track
		for t := range tracks {
			n := len(tracks[t].seg0)
			for v := 0; v < 4; v++ {
				a := recvUpload{Track: t, Seq: next(t), Del: none}
				a.Del.HoldAt = 50 + rng.Intn(n-100)
				a.Del.Chunked = v&1 == 1
				b := recvUpload{Track: t, Seq: next(t), Del: none}
				b.Del.Chunked = v&2 == 2
				overlap("overlap-same-track", a, b)
			}
			a := recvUpload{Track: t, Seq: next(t), Del: none}
			a.Del.HoldAt = 50 + rng.Intn(n-100)
			overlap("overlap-resent-init", a, recvUpload{Track: t, Init: true, Del: none})
			// the later number first: N+1 paused, N sent meanwhile
			hi := next(t)
			lo := next(t)
			a = recvUpload{Track: t, Seq: lo, Del: none}
			a.Del.HoldAt = 50 + rng.Intn(n-100)
			overlap("overlap-same-track-same-size", a, recvUpload{Track: t, Seq: hi, Del: none})
		}
		// overlapping uploads of different tracks
		for t := range tracks {
			o := (t + 1) % len(tracks)
			a := recvUpload{Track: t, Seq: next(t), Del: none}
			a.Del.HoldAt = 50 + rng.Intn(len(tracks[t].seg0)-100)
			a.Del.Chunked = r%2 == 1
			overlap("overlap-other-track", a, recvUpload{Track: o, Seq: next(o), Del: none})
		}
		// bodies cut short
		for t := range tracks {
			n := len(tracks[t].segment(1))
			for _, cut := range []int{0, 20 + rng.Intn(60), n/2 + rng.Intn(n/4), n - 1, n} {
				d := none
				d.CutAt = cut
				if cut < n {
					single("cut-content-length", recvUpload{Track: t, Seq: next(t), Del: d})
				}
				d.Chunked = true
				d.Splits = recvSplits(rng, n, 4)
				single("cut-chunked-no-terminator", recvUpload{Track: t, Seq: next(t), Del: d})
			}
			// a complete upload after the cut ones must still work
			single("media-after-cut", recvUpload{Track: t, Seq: next(t), Del: none})
		}
	}
	// uploads larger than the receiver's initial parse buffer (16 MiB): with Content-Length as one mdat and as several
	// chunks, chunked transfer as control
	{
		big := []recvUpload{{Track: 0, Seq: next(0), Del: none, BigMiB: 17}}
		if c.Thorough() {
			ch1 := none
			ch1.Chunked = true
			ch1.Splits = []int{1 << 20, 5 << 20, 3 << 20}
			big = append(big,
				recvUpload{Track: 1, Seq: next(1), Del: none, BigMiB: 20, Frags: 3},
				recvUpload{Track: 0, Seq: next(0), Del: none, BigMiB: 18, Frags: 5},
				recvUpload{Track: 1, Seq: next(1), Del: ch1, BigMiB: 17},
				recvUpload{Track: 0, Seq: next(0), Del: ch1, BigMiB: 19, Frags: 2})
		}
		for _, u := range big {
			single("large-upload", u)
			delete(bigCache, [2]int{u.Track, u.Seq})
		}
	}
	c.Res.Notes = append(c.Res.Notes, fmt.Sprintf("receiver level: %d uploads over real HTTP connections to one in-process receiver (deliveries, overlapping uploads of one track and of different tracks, cut bodies) checked against the stored files", evals))
	return nil
}
