// C19 — the ingest receiver tolerates concurrent uploads.
// Builds cmd/c19/racer with the Go race detector (CGO), runs it as a child process on scenarios of
// concurrent first uploads (init and first media segment) for 2..8 tracks x 1..4 channels released
// from a barrier, with and without authentication and per-representation configuration, and
// evaluates: one channel object per name (goroutines left = channels), every track registered,
// no upload lost, final files equal to those of the sequential reference run, no data race.
// Every race the detector reports on a field of Receiver/ChannelMgr/channel/segmentTimelineGenerator
// is handed to Coq (CorrC19.v) and must be among the conflicting pairs derived from gen/Access.v.
package main

import (
	"bufio"
	"bytes"
	"encoding/json"
	"fmt"
	"math/rand"
	"os"
	"os/exec"
	"path/filepath"
	"regexp"
	"sort"
	"strconv"
	"strings"
	"time"

	"verifharness/lib"
)

type Track struct {
	Name  string `json:"name"`
	Asset string `json:"asset"`
	Ext   string `json:"ext"`
	Media string `json:"media"`
}

type Scenario struct {
	Channels   []string    `json:"channels"`
	Tracks     []Track     `json:"tracks"`
	Auth       bool        `json:"auth"`
	RepCfg     bool        `json:"repcfg"`
	Sequential bool        `json:"sequential"`
	Rounds     int         `json:"rounds"`
	Register   int         `json:"register,omitempty"`
	Receiving  int         `json:"receiving,omitempty"`
	Gated      bool        `json:"gated,omitempty"`
	Backlog    bool        `json:"backlog,omitempty"`
	Feed       int         `json:"feed,omitempty"`
	Restart    bool        `json:"restart,omitempty"`
	LastRound  int         `json:"lastround,omitempty"`
	Collide    [][2]string `json:"collide,omitempty"`
	Raw        bool        `json:"raw,omitempty"`
	StartReg   bool        `json:"startreg,omitempty"`
	OpenStart  bool        `json:"openstart,omitempty"`
	LateFirst  bool        `json:"latefirst,omitempty"`
	Overlap    bool        `json:"overlap,omitempty"`
	ReInit     bool        `json:"reinit,omitempty"`
}

type Outcome struct {
	Scenario    int                            `json:"scenario"`
	Round       int                            `json:"round"`
	Statuses    map[string]int                 `json:"statuses"`
	Channels    []string                       `json:"channels"`
	Goroutines  int                            `json:"goroutines"`
	Tracks      map[string][]string            `json:"tracks"`
	Files       map[string][]string            `json:"files"`
	Content     []string                       `json:"content,omitempty"`
	MPDs        map[string]bool                `json:"mpds"`
	Masters     map[string]string              `json:"masters"`
	TrIDs       map[string][]string            `json:"trids"`
	RegOutcomes map[string]int                 `json:"reg_outcomes,omitempty"`
	Hangs       int                            `json:"hangs,omitempty"`
	Buffers     map[string]map[string][]uint32 `json:"buffers,omitempty"`
	Latest      map[string]uint32              `json:"latest,omitempty"`
	MPDTrace    map[string][]string            `json:"mpd_trace,omitempty"`
	Manifest    map[string]string              `json:"manifest,omitempty"`
}

type race struct {
	Field string `json:"field"` // struct.field, or "?" with the source line
	F1    string `json:"f1"`
	F2    string `json:"f2"`
	Src   string `json:"src"`
}

func main() { lib.Main("C19", run) }

var assets = []Track{
	{Asset: "zero_3.84s/video-500Kbps", Ext: ".cmfv", Media: "video"},
	{Asset: "zero_3.84s/audio-nor-128Kbps", Ext: ".cmfa", Media: "audio"},
	{Asset: "zero_3.84s/video-800Kbps", Ext: ".cmfv", Media: "video"},
	{Asset: "zero_3.84s/text-nor-0", Ext: ".cmft", Media: "text"},
}

// one video track and n-1 audio/text tracks
func oneVideoTracks(n int) []Track {
	l := []Track{assets[0]}
	l[0].Name = "video"
	for i := 1; i < n; i++ {
		a := assets[1+2*(i%2)]
		a.Name = fmt.Sprintf("%s%d", a.Media, i)
		l = append(l, a)
	}
	return l
}

// the master track names that a sequential order of the registrations can leave: the first video track
// registered becomes and stays the master; without a video track the last one registered is the master
func admissibleMasters(tracks []Track) map[string]bool {
	adm := map[string]bool{}
	for _, t := range tracks {
		if t.Media == "video" {
			adm[t.Name] = true
		}
	}
	if len(adm) == 0 {
		for _, t := range tracks {
			adm[t.Name] = true
		}
	}
	return adm
}

func mkTracks(n int) []Track {
	var l []Track
	for i := 0; i < n; i++ {
		a := assets[i%len(assets)]
		a.Name = fmt.Sprintf("tr%d", i)
		l = append(l, a)
	}
	return l
}

func scenarios(c *lib.Ctx, rng *rand.Rand) []Scenario {
	var scs []Scenario
	rounds := 4
	if c.Thorough() {
		rounds = 12
	}
	for nch := 1; nch <= 4; nch++ {
		for _, ntr := range []int{2, 3, 5, 8} {
			if !c.Thorough() && nch >= 3 && ntr == 5 {
				continue
			}
			var chs []string
			for k := 0; k < nch; k++ {
				chs = append(chs, fmt.Sprintf("ch%d", k))
			}
			v := rng.Intn(4)
			scs = append(scs, Scenario{Channels: chs, Tracks: mkTracks(ntr), Auth: v&1 == 1, RepCfg: v&2 == 2, Rounds: rounds})
		}
	}
	for _, v := range []int{1, 2, 3} {
		scs = append(scs, Scenario{Channels: []string{"chA", "chB"}, Tracks: mkTracks(4), Auth: v&1 == 1, RepCfg: v&2 == 2, Rounds: rounds})
	}
	// one video and several non-video tracks: through the router, and registration (addTrData) alone
	reg := 1500
	if c.Thorough() {
		reg = 12000
	}
	for _, n := range []int{2, 4, 8} {
		scs = append(scs, Scenario{Channels: []string{"chV"}, Tracks: oneVideoTracks(n), Rounds: 2 * rounds})
		scs = append(scs, Scenario{Tracks: oneVideoTracks(n), Register: reg})
	}
	scs = append(scs, Scenario{Tracks: mkTracks(5), Register: reg}) // two video tracks: either may be the master
	// the scale of the quantifier: every first upload of up to 8 tracks x 4 channels in flight at the same time
	// (bodies stop half-way until all are in flight), through the receiver's router
	for _, cfg := range [][2]int{{3, 6}, {4, 5}, {4, 8}, {2, 8}} {
		var chs []string
		for k := 0; k < cfg[0]; k++ {
			chs = append(chs, fmt.Sprintf("g%d", k))
		}
		scs = append(scs, Scenario{Channels: chs, Tracks: mkTracks(cfg[1]), Gated: true, Rounds: 1 + rounds/4})
	}
	// several channels fed at the same time, number by number; every channel's MPD after every number
	for _, cfg := range [][2]int{{3, 2}, {4, 3}} {
		var chs []string
		for k := 0; k < cfg[0]; k++ {
			chs = append(chs, fmt.Sprintf("f%d", k))
		}
		scs = append(scs, Scenario{Channels: chs, Tracks: oneVideoTracks(cfg[1]), Feed: 10, Rounds: rounds / 2})
	}
	// a restarted receiver (storage left by an earlier run): per track a request without credentials, then the
	// authorised uploads, tracks concurrently; also in raw-segment mode
	for _, n := range []int{2, 4, 8} {
		scs = append(scs, Scenario{Channels: []string{"rs"}, Tracks: oneVideoTracks(n), Auth: true, Restart: true, Rounds: rounds / 2})
		scs = append(scs, Scenario{Channels: []string{"rw"}, Tracks: oneVideoTracks(n), Auth: true, Restart: true, Raw: true, Rounds: rounds / 2})
	}
	// a track registers during the start-up of the channel (between the goroutine's look at the track table and its
	// MPD write); 3..7 tracks delivered before, the new name sorts before or after them
	for i, n := range []int{4, 6, 7, 8} {
		tr := oneVideoTracks(n - 1)
		lateName := []string{"a-late", "zz-late", "b-late", "text0"}[i]
		late := assets[3]
		if i%2 == 1 {
			late = assets[1]
		}
		late.Name = lateName
		scs = append(scs, Scenario{Channels: []string{"sr"}, Tracks: append(tr, late), StartReg: true, Rounds: 2 * rounds})
	}
	// shifted channel: uploads of the other tracks are open (no body byte sent yet) while the master starts the channel
	for _, n := range []int{2, 3} {
		scs = append(scs, Scenario{Channels: []string{"os"}, Tracks: oneVideoTracks(n), OpenStart: true, Rounds: rounds / 2})
	}
	// overlapping uploads of the same track (a segment still arriving while the next one, or a re-sent init, completes)
	for _, n := range []int{2, 4} {
		scs = append(scs, Scenario{Channels: []string{"ov"}, Tracks: oneVideoTracks(n), Overlap: true, Rounds: rounds / 2})
		scs = append(scs, Scenario{Channels: []string{"ovi"}, Tracks: oneVideoTracks(n), Overlap: true, ReInit: true, Rounds: rounds / 2})
	}
	// init segments sent again while the last number of every track is uploaded: nothing follows that would bring a
	// timeline MPD up to date that was left behind
	for _, n := range []int{2, 5, 8} {
		scs = append(scs, Scenario{Channels: []string{"lr"}, Tracks: oneVideoTracks(n), LastRound: 1, Rounds: rounds / 2})
		scs = append(scs, Scenario{Channels: []string{"lrp"}, Tracks: oneVideoTracks(n), LastRound: 2, Rounds: rounds / 2})
	}
	// channel and track names with separator characters whose concatenations coincide; first uploads after a
	// restart are media segments
	for _, ps := range [][][2]string{
		{{"studio", "1_video"}, {"studio_1", "video"}},
		{{"a-b", "c"}, {"a", "b-c"}, {"a_b", "c"}, {"a", "b_c"}},
		{{"x.y", "z"}, {"x", "y.z"}, {"x", "y_z"}, {"x_y", "z"}, {"xy", "z"}, {"x", "yz"}},
	} {
		var chs []string
		seen := map[string]bool{}
		for _, p := range ps {
			if !seen[p[0]] {
				seen[p[0]] = true
				chs = append(chs, p[0])
			}
		}
		scs = append(scs, Scenario{Channels: chs, Tracks: oneVideoTracks(1), Collide: ps, Rounds: rounds / 2})
	}
	// more messages outstanding than the channel's queue holds while the channel goroutine waits for the MPD mutex
	for _, n := range []int{6, 8} {
		scs = append(scs, Scenario{Channels: []string{"bl"}, Tracks: oneVideoTracks(n), Backlog: true, Rounds: rounds / 2})
	}
	// tracks that register (and re-send their init) while media chunks of the first track are being processed
	recvRounds := 150
	if c.Thorough() {
		recvRounds = 1500
	}
	for _, n := range []int{2, 4, 8} {
		scs = append(scs, Scenario{Tracks: oneVideoTracks(n), Receiving: recvRounds})
	}
	return scs
}

// ---------------------------------------------------------------- race reports

var reFrame = regexp.MustCompile(`cmaf-ingest-receiver/app\.([A-Za-z0-9_().*$-]+)\(\)\s*\n\s+(\S+\.go):(\d+)`)
var reFields = regexp.MustCompile(`\b(streams|trDatas|trIDs|startTime|maxNrBufSegs|masterTimescale|masterSegDuration|masterTimeShift|masterSeqNrShift|masterTrName|channels|segDataBuffers|latestSeqNr|_nrTracks|_started|_shifted|windowSize|repsCfg)\b`)
var rePointee = regexp.MustCompile(`\b(AdaptationSets|Periods|Representations|AvailabilityStartTime|SegmentTemplate|Roles|mpd|AppendAdaptationSet|AppendRepresentation|Labels|Bandwidth)\b`)
var reClosure = regexp.MustCompile(`\.func\d+(\.\d+)*`)

var structOf = map[string]string{"streams": "Receiver", "channels": "ChannelMgr", "segDataBuffers": "segmentTimelineGenerator",
	"latestSeqNr": "segmentTimelineGenerator", "_nrTracks": "segmentTimelineGenerator", "_started": "segmentTimelineGenerator",
	"_shifted": "segmentTimelineGenerator", "windowSize": "segmentTimelineGenerator"}

var srcCache = map[string][]string{}

func srcLine(file string, line int) string {
	l, ok := srcCache[file]
	if !ok {
		data, _ := os.ReadFile(file)
		l = strings.Split(string(data), "\n")
		srcCache[file] = l
	}
	if line >= 1 && line <= len(l) {
		return strings.TrimSpace(l[line-1])
	}
	return ""
}

func normFunc(f string) string {
	f = strings.NewReplacer("(*", "", ")", "").Replace(f)
	f = strings.TrimSuffix(f, "-fm")
	return reClosure.ReplaceAllString(f, "$$closure")
}

// first frame of package app (not a hook) of one stack of a race report
func topFrame(stack string) (fn, src string) {
	for _, m := range reFrame.FindAllStringSubmatch(stack, -1) {
		if strings.Contains(m[1], "Verif") || strings.Contains(m[2], "verif_hooks") {
			continue
		}
		n, _ := strconv.Atoi(m[3])
		return normFunc(m[1]), srcLine(m[2], n)
	}
	return "", ""
}

func parseRaces(stderr string) []race {
	var out []race
	seen := map[string]bool{}
	for _, blk := range strings.Split(stderr, "WARNING: DATA RACE")[1:] {
		if i := strings.Index(blk, "=================="); i >= 0 {
			blk = blk[:i]
		}
		parts := strings.SplitN(blk, "\nPrevious ", 2)
		if len(parts) != 2 {
			continue
		}
		second := parts[1]
		if i := strings.Index(second, "\nGoroutine "); i >= 0 {
			second = second[:i]
		}
		f1, s1 := topFrame(parts[0])
		f2, s2 := topFrame(second)
		if f1 == "" || f2 == "" {
			continue
		}
		field := "?"
		// a field named on both source lines, else the first one named on either
		m1, m2 := reFields.FindAllString(s1, -1), reFields.FindAllString(s2, -1)
		pick := ""
		for _, a := range m1 {
			for _, b := range m2 {
				if a == b && pick == "" {
					pick = a
				}
			}
		}
		if pick == "" && len(m1) > 0 {
			pick = m1[0]
		}
		if pick == "" && len(m2) > 0 {
			pick = m2[0]
		}
		if pick != "" {
			st := structOf[pick]
			if st == "" {
				st = "channel"
			}
			field = st + "." + pick
		}
		if field == "?" {
			mpdFn := func(f string) bool {
				return strings.HasPrefix(f, "channel.addInitDataAndUpdateTimescale") || strings.HasPrefix(f, "extract") ||
					strings.HasPrefix(f, "channel.deriveAndSet") || f == "channel.updateAndWriteMPD" || strings.HasPrefix(f, "segmentTimelineGenerator.")
			}
			if rePointee.MatchString(s1) || rePointee.MatchString(s2) || (mpdFn(f1) && mpdFn(f2)) {
				field = "channel.mpd(pointee)"
			}
		}
		if f2 < f1 {
			f1, f2, s1, s2 = f2, f1, s2, s1
		}
		r := race{Field: field, F1: f1, F2: f2, Src: s1 + " || " + s2}
		k := field + ":" + f1 + "|" + f2
		if !seen[k] {
			seen[k] = true
			out = append(out, r)
		}
	}
	return out
}

// ---------------------------------------------------------------- running

type runResult struct {
	outs   []Outcome
	races  []race
	died   string
	stderr string
}

func runRacer(bin, scPath string, first int, race bool) runResult {
	cmd := exec.Command(bin, scPath, strconv.Itoa(first))
	cmd.Env = append(os.Environ(), "GORACE=exitcode=0 history_size=2")
	var so, se bytes.Buffer
	cmd.Stdout, cmd.Stderr = &so, &se
	// watchdog: a receiver that no longer answers (a deadlocked channel) would block the racer for ever
	limit := 240 * time.Second
	if err := cmd.Start(); err != nil {
		return runResult{died: "racer does not start: " + err.Error()}
	}
	waitCh := make(chan error, 1)
	go func() { waitCh <- cmd.Wait() }()
	var err error
	hung := false
	select {
	case err = <-waitCh:
	case <-time.After(limit):
		hung = true
		_ = cmd.Process.Kill()
		err = <-waitCh
	}
	var res runResult
	sc := bufio.NewScanner(&so)
	sc.Buffer(make([]byte, 1<<20), 1<<26)
	for sc.Scan() {
		if line := sc.Text(); strings.HasPrefix(line, "@@O ") {
			var o Outcome
			if json.Unmarshal([]byte(line[4:]), &o) == nil {
				res.outs = append(res.outs, o)
			}
		}
	}
	res.stderr = se.String()
	res.races = parseRaces(res.stderr)
	if hung {
		res.died = fmt.Sprintf("hang: the racer did not finish within %v: an upload is never answered or a channel no longer takes messages", limit)
		return res
	}
	if err != nil {
		msg := "exit: " + err.Error()
		for _, l := range strings.Split(res.stderr, "\n") {
			if strings.HasPrefix(l, "fatal error:") || strings.HasPrefix(l, "panic:") {
				msg = l
				break
			}
		}
		res.died = msg
	}
	return res
}

func run(c *lib.Ctx) error {
	rng := rand.New(rand.NewSource(c.Seed))
	scs := scenarios(c, rng)
	if c.Replay != "" {
		sc, err := lib.LoadReplayInput[Scenario](c.Replay)
		if err != nil {
			return err
		}
		sc.Rounds = 6
		scs = []Scenario{sc}
	}
	// sequential reference runs of the same scenarios
	var all []Scenario
	for _, s := range scs {
		all = append(all, s)
		ref := s
		ref.Sequential, ref.Rounds = true, 1
		if ref.Register > 0 {
			ref.Register = 1
		}
		if ref.Receiving > 0 {
			continue // liveness has no sequential reference
		}
		all = append(all, ref)
		if s.StartReg { // the other admissible order: the last track registers before the master's segment 2
			ref2 := ref
			ref2.LateFirst = true
			all = append(all, ref2)
		}
	}
	scPath := filepath.Join(c.Out, "c19_scenarios.json")
	b, _ := json.Marshal(all)
	if err := os.WriteFile(scPath, b, 0o644); err != nil {
		return err
	}
	// build the racer with the race detector; fall back to a plain build (stress only)
	bin := filepath.Join(c.Out, "c19racer")
	withRace := true
	build := exec.Command("go", "build", "-race", "-tags", "verif", "-o", bin, "./cmd/c19/racer")
	build.Env = append(os.Environ(), "CGO_ENABLED=1")
	if out, err := build.CombinedOutput(); err != nil {
		withRace = false
		c.Res.Notes = append(c.Res.Notes, "go build -race failed, falling back to stress runs without the race detector: "+tail(string(out), 400))
		build = exec.Command("go", "build", "-tags", "verif", "-o", bin, "./cmd/c19/racer")
		if out, err := build.CombinedOutput(); err != nil {
			return fmt.Errorf("racer does not build: %v\n%s", err, out)
		}
	}
	var outs []Outcome
	var races []race
	raceSeen := map[string]bool{}
	first := 0
	deaths := 0
	for first < len(all) {
		r := runRacer(bin, scPath, first, withRace)
		outs = append(outs, r.outs...)
		for _, x := range r.races {
			k := x.Field + ":" + x.F1 + "|" + x.F2
			if !raceSeen[k] {
				raceSeen[k] = true
				races = append(races, x)
			}
		}
		if r.died == "" {
			break
		}
		deaths++
		// died inside the scenario after the last completed one
		cur := first
		if len(r.outs) > 0 {
			cur = r.outs[len(r.outs)-1].Scenario
			if r.outs[len(r.outs)-1].Round == all[cur].Rounds-1 {
				cur++
			}
		}
		if i := strings.LastIndex(r.stderr, "@@ scenario "); i >= 0 { // the racer announces every scenario it starts
			var n int
			if _, err := fmt.Sscanf(r.stderr[i:], "@@ scenario %d", &n); err == nil && n >= first && n < len(all) {
				cur = n
			}
		}
		if cur < len(all) {
			c.Fail(fmt.Sprintf("s%d", cur), "process-died:"+r.died, "the receiver process died during concurrent first uploads: "+r.died, all[cur])
		}
		first = cur + 1
		if deaths > 20 || strings.HasPrefix(r.died, "hang:") {
			break // a hang costs the whole watchdog time; it is reported, the remaining scenarios are not run
		}
	}
	// ---- oracle on the outcomes
	ref := map[int]Outcome{}
	for _, o := range outs {
		if all[o.Scenario].Sequential {
			ref[o.Scenario] = o
		}
	}
	distinct := map[string]bool{}
	for _, o := range outs {
		sc := all[o.Scenario]
		id := fmt.Sprintf("s%d", o.Scenario)
		c.Res.Inputs[id] = sc
		kind := "concurrent"
		if sc.Sequential {
			kind = "sequential-reference"
		}
		c.Count(fmt.Sprintf("%s:%dch-x-%dtr:auth=%v:repcfg=%v", kind, len(sc.Channels), len(sc.Tracks), sc.Auth, sc.RepCfg))
		distinct[fmt.Sprintf("%d/%v", o.Scenario, o)] = true
		if sc.Receiving > 0 {
			if o.Hangs > 0 {
				c.Fail(id, "registration-during-media:hang", fmt.Sprintf("%d round(s) of tracks registering while chunk messages of another track are processed did not finish within 3 s: an upload never returns or the channel goroutine no longer takes messages", o.Hangs), sc)
			}
			adm := admissibleMasters(sc.Tracks)
			for out, n := range o.RegOutcomes {
				var master string
				fmt.Sscanf(out, "master=%s", &master)
				if !adm[master] {
					c.Fail(id, "registration-not-sequential", fmt.Sprintf("%d rounds ended with %s; a sequential order gives a master in %v", n, out, keysOf(adm)), sc)
				}
			}
			continue
		}
		if sc.Register > 0 {
			adm := admissibleMasters(sc.Tracks)
			var names []string
			for _, t := range sc.Tracks {
				names = append(names, t.Name)
			}
			sort.Strings(names)
			for out, n := range o.RegOutcomes {
				var master string
				fmt.Sscanf(out, "master=%s", &master)
				want := fmt.Sprintf("keys=%v trIDs=%v", names, names)
				if !adm[master] || !strings.HasSuffix(out, want) {
					c.Fail(id, "registration-not-sequential", fmt.Sprintf("%d of %d rounds of concurrent addTrData ended with %s; a sequential order gives master in %v, %s", n, sc.Register, out, keysOf(adm), want), sc)
				}
			}
			continue
		}
		if o.Goroutines != len(sc.Channels) || len(o.Channels) != len(sc.Channels) {
			c.Fail(id, "channel-objects", fmt.Sprintf("%d channel names, %d channel objects (goroutines) for %d channels", len(o.Channels), o.Goroutines, len(sc.Channels)), sc)
			continue
		}
		nUp := 2 * len(sc.Channels) * len(sc.Tracks)
		if sc.Backlog {
			nUp = 6 * len(sc.Tracks)
		}
		if len(sc.Collide) > 0 {
			if o.Statuses["200"] != 4*len(sc.Collide) {
				c.Fail(id, "upload-refused", fmt.Sprintf("statuses %v for %d uploads to channels and tracks whose names contain separator characters", o.Statuses, 4*len(sc.Collide)), sc)
				continue
			}
			bad := false
			for k, p := range sc.Collide {
				for _, nr := range []int{1, 2 + k, 12 + k} {
					want := fmt.Sprintf("%s/%d%s", p[1], nr, sc.Tracks[0].Ext)
					found := false
					for _, f := range o.Files[p[0]] {
						found = found || f == want
					}
					if !found && !bad {
						bad = true
						c.Fail(id, "upload-lost", fmt.Sprintf("channel %s: %s is not stored; stored: %v", p[0], want, o.Files[p[0]]), sc)
					}
				}
			}
			if r, ok := ref[o.Scenario+1]; ok && !bad && !sc.Sequential && fmt.Sprint(o.Files) != fmt.Sprint(r.Files) {
				c.Fail(id, "files-differ-from-sequential", fmt.Sprintf("stored %v, the sequential run %v", o.Files, r.Files), sc)
			}
			continue
		}
		if sc.LastRound > 0 {
			nUp = 5*len(sc.Tracks) + 1
			if sc.LastRound == 2 {
				nUp = 6 * len(sc.Tracks)
			}
		}
		if sc.Feed > 0 {
			nUp = (1 + sc.Feed) * len(sc.Channels) * len(sc.Tracks)
		}
		if sc.StartReg {
			nUp = 3*(len(sc.Tracks)-1) + 2
		}
		if sc.OpenStart {
			nUp = 5 * len(sc.Tracks)
		}
		if sc.Overlap {
			nUp = 4 * len(sc.Tracks)
			if sc.ReInit {
				nUp = 5 * len(sc.Tracks)
			}
		}
		if sc.Restart {
			half := (len(sc.Tracks) + 1) / 2
			nUp = 2*half + len(sc.Tracks) + (len(sc.Tracks) - half) // earlier run, authorised segment 2, init of the new tracks
			if sc.Raw {
				nUp += half // the restored tracks' shorter third upload
			}
			if o.Statuses["401"] != len(sc.Tracks) {
				c.Fail(id, "unauthorised-not-refused", fmt.Sprintf("statuses %v: %d requests without credentials must be answered 401", o.Statuses, len(sc.Tracks)), sc)
				continue
			}
		}
		if o.Statuses["200"] != nUp {
			c.Fail(id, "upload-refused", fmt.Sprintf("statuses %v for %d uploads", o.Statuses, nUp), sc)
			continue
		}
		if (sc.Feed > 0 || sc.LastRound > 0) && !sc.Sequential {
			if r, ok := ref[o.Scenario+1]; ok {
				for _, ch := range sc.Channels {
					if strings.Join(o.MPDTrace[ch], " | ") != strings.Join(r.MPDTrace[ch], " | ") {
						c.Fail(id, "mpd-differs-from-sequential", fmt.Sprintf("channel %s (uploads of %d channels at the same time, every one answered 200): its timeline MPD after each number / at the end was %v; the same uploads in turn: %v", ch, len(sc.Channels), o.MPDTrace[ch], r.MPDTrace[ch]), sc)
						break
					}
				}
			}
		}
		var want []string
		for _, t := range sc.Tracks {
			want = append(want, t.Name)
		}
		sort.Strings(want)
		bad := false
		for _, ch := range sc.Channels {
			if strings.Join(o.Tracks[ch], ",") != strings.Join(want, ",") {
				c.Fail(id, "track-not-registered", fmt.Sprintf("channel %s has tracks %v, uploaded %v", ch, o.Tracks[ch], want), sc)
				bad = true
				break
			}
		}
		if bad {
			continue
		}
		if len(o.Content) > 0 {
			sort.Strings(o.Content)
			c.Fail(id, "stored-differs-from-last-upload", fmt.Sprintf("raw-segment mode, every upload answered as expected: %s", strings.Join(o.Content, "; ")), sc)
			continue
		}
		if !sc.Raw { // raw-segment mode keeps no master track / trIDs; it is compared with its sequential reference below
			adm := admissibleMasters(sc.Tracks)
			for _, ch := range sc.Channels {
				if !adm[o.Masters[ch]] || strings.Join(o.TrIDs[ch], ",") != strings.Join(want, ",") {
					c.Fail(id, "registration-not-sequential", fmt.Sprintf("channel %s ends with master track %q and trIDs %v; a sequential order of the same uploads gives a master in %v and trIDs %v", ch, o.Masters[ch], o.TrIDs[ch], keysOf(adm), want), sc)
					bad = true
					break
				}
			}
			if bad {
				continue
			}
		}
		if !sc.Sequential {
			r, ok := ref[o.Scenario+1]
			if ok {
				for _, ch := range sc.Channels {
					r2, has2 := ref[o.Scenario+2]
					if o.Manifest[ch] != r.Manifest[ch] && !(sc.StartReg && has2 && o.Manifest[ch] == r2.Manifest[ch]) {
						c.Fail(id, "manifest-differs-from-sequential", fmt.Sprintf("channel %s: manifest.mpd has %q, the sequential run %q", ch, o.Manifest[ch], r.Manifest[ch]), sc)
						break
					}
					if fmt.Sprint(o.Buffers[ch]) != fmt.Sprint(r.Buffers[ch]) || o.Latest[ch] != r.Latest[ch] {
						c.Fail(id, "final-state-differs-from-sequential", fmt.Sprintf("channel %s: every upload was answered 200, but the per-track segment buffers %v and the newest published number %d differ from the sequential run's %v and %d", ch, o.Buffers[ch], o.Latest[ch], r.Buffers[ch], r.Latest[ch]), sc)
						break
					}
					if strings.Join(o.Files[ch], ",") != strings.Join(r.Files[ch], ",") || o.MPDs[ch] != r.MPDs[ch] {
						c.Fail(id, "files-differ-from-sequential", fmt.Sprintf("channel %s stores %v (mpd %v), the sequential run %v (mpd %v)", ch, o.Files[ch], o.MPDs[ch], r.Files[ch], r.MPDs[ch]), sc)
						break
					}
				}
			}
		}
	}
	staticLockOrder(c)
	for _, x := range races {
		c.Fail("races", "race:"+x.Field+":"+x.F1+"|"+x.F2, "data race reported by the Go race detector: "+x.Src, map[string]any{"race": x})
	}
	// ---- Coq: every race on a field of the listed structs must be a conflicting pair of gen/Access.v
	var items []string
	for _, x := range races {
		if strings.HasPrefix(x.Field, "?") || strings.Contains(x.Field, "(pointee)") {
			continue
		}
		f := x.Field[strings.Index(x.Field, ".")+1:]
		items = append(items, fmt.Sprintf("(%s, %s, %s)", lib.CoqString(f), lib.CoqString(x.F1), lib.CoqString(x.F2)))
	}
	term := fmt.Sprintf("{| c_id := 0; c_races := [%s] |}", strings.Join(items, "; "))
	c.WriteCases("cases_C19_0.v", lib.CasesFile("From Verif Require Import GoSem Conc CorrC19.", "c19case", "", []string{term}, "model_view"))
	c.Res.Inputs["0"] = map[string]any{"races": races}
	c.Res.ModelCases = len(items)
	c.Res.Evaluations = len(outs)
	c.Res.DistinctNontrivial = len(distinct)
	c.Res.Notes = append(c.Res.Notes, fmt.Sprintf("race detector: %v; %d racer runs, %d distinct races reported, %d of them on fields of the listed structs (checked against gen/Access.v in Coq), %d process deaths",
		withRace, len(outs), len(races), len(items), deaths))
	for i, x := range races {
		if i < 5 {
			c.Sample(x)
		}
	}
	c.Res.Rule = "each evaluation is one run of a scenario (channels x tracks, auth, repcfg): all first uploads (init + first segment per track) released from a barrier in a -race child process, or its sequential reference; distinct = distinct (scenario, outcome); all are non-trivial (>= 4 concurrent requests)"
	return nil
}

func keysOf(m map[string]bool) []string {
	var l []string
	for k := range m {
		l = append(l, k)
	}
	sort.Strings(l)
	return l
}

func tail(s string, n int) string {
	if len(s) > n {
		return s[len(s)-n:]
	}
	return s
}
