// Racer for C19: releases concurrent first uploads (init and first media segment of every track
// of every channel) from a barrier against the receiver's real router and reports what is left
// behind.  Built by cmd/c19 with `go build -race`; data races are reported by the Go race detector
// on stderr, a fatal "concurrent map writes" kills the process (both are observations).
package main

import (
	"bytes"
	"context"
	"encoding/json"
	"fmt"
	"io"
	"log/slog"
	"net/http"
	"net/http/httptest"
	"os"
	"path/filepath"
	"runtime"
	"sort"
	"strconv"
	"strings"
	"sync"
	"sync/atomic"
	"testing/iotest"
	"time"

	app "github.com/Dash-Industry-Forum/livesim2/cmd/cmaf-ingest-receiver/app"
	"github.com/Eyevinn/dash-mpd/mpd"
	"github.com/Eyevinn/mp4ff/mp4"
)

type Track struct {
	Name  string `json:"name"`
	Asset string `json:"asset"` // directory under testdata with init_org<ext> and 0<ext>
	Ext   string `json:"ext"`
	Media string `json:"media"` // video | audio | text
}

type Scenario struct {
	Channels   []string `json:"channels"`
	Tracks     []Track  `json:"tracks"`
	Auth       bool     `json:"auth"`
	RepCfg     bool     `json:"repcfg"`
	Sequential bool     `json:"sequential"` // reference run: one upload after the other
	Rounds     int      `json:"rounds"`
	// Register > 0: no HTTP; that many rounds of addTrData for the tracks (Media gives the content type)
	// called from one goroutine per track, released by a barrier, on a fresh channel each round
	Register int `json:"register,omitempty"`
	// Receiving > 0: no HTTP; that many rounds in which the first track sends chunk messages to the channel
	// goroutine while the other tracks register (and re-register), each round under a watchdog
	Receiving int `json:"receiving,omitempty"`
	// Gated: every request body stops half-way until all uploads of the phase are in flight (or 1.5 s passed)
	Gated bool `json:"gated,omitempty"`
	// Backlog: init and segments 1..3 of all tracks one after the other, then (concurrent run) the MPD mutex is
	// held while segment 4 is sent (the channel goroutine stops at its next MPD) and segment 5 of all tracks is
	// sent concurrently, so that more messages are outstanding than the channel's queue holds; then released
	Backlog bool `json:"backlog,omitempty"`
	// Feed > 0: every channel is fed that many segment numbers (all tracks per number), all channels at the same
	// time number by number; after every number each channel's timeline MPD is read (MPDTrace)
	Feed int `json:"feed,omitempty"`
	// Restart: a first receiver stores the first half of the tracks (init and segment 1, authorised); a second
	// receiver on the same storage then gets, per track concurrently, a request without credentials followed by the
	// authorised uploads (restored tracks send media only, new tracks init and media); Raw: raw-segment mode
	// LastRound: inits and numbers 1..3 in turn; then init segments are sent again (1: one track, the MPD mutex is held
	// so that its registration is in progress; 2: every track, nothing held) while the last number (4) of every
	// track is uploaded. Nothing follows: the final state must be that of the sequential order
	LastRound int `json:"lastround,omitempty"`
	// Collide: (channel, track) pairs whose names contain separator characters so that their concatenations
	// coincide; an earlier run left init_org on disk, the restarted receiver gets MEDIA segments as first uploads
	Collide [][2]string `json:"collide,omitempty"`
	Restart bool        `json:"restart,omitempty"`
	Raw     bool        `json:"raw,omitempty"`
	// StartReg: all tracks but the last deliver init and segment 1; then (concurrent run) the MPD mutex is held, the
	// master's segment 2 starts the channel (the channel goroutine waits for the mutex in its start-up derivation),
	// the last track registers meanwhile, the mutex is released; then the remaining segments. manifest.mpd is read.
	StartReg bool `json:"startreg,omitempty"`
	// LateFirst (sequential reference of StartReg): the last track registers before the master's segment 2
	LateFirst bool `json:"latefirst,omitempty"`
	// OpenStart: shifted channel (mfhd numbers 8090.. against time/duration 449002889..): the second segment of
	// the second track is opened (request started, body not yet sent) before the master's second segment starts
	// the channel and is sent afterwards (sequential reference: sent completely before the master's second segment)
	OpenStart bool `json:"openstart,omitempty"`
	// Overlap: after init and segment 1 of all tracks, for every track concurrently: segment 2 is sent half-way,
	// then segment 3 (and, ReInit, the init segment again) completely on another request, then the rest of
	// segment 2 (sequential reference: segment 3, the init, segment 2, one after the other)
	Overlap bool `json:"overlap,omitempty"`
	ReInit  bool `json:"reinit,omitempty"`
}

type Outcome struct {
	Scenario   int                 `json:"scenario"`
	Round      int                 `json:"round"`
	Statuses   map[string]int      `json:"statuses"` // status code -> count
	Channels   []string            `json:"channels"`
	Goroutines int                 `json:"goroutines"` // goroutines left by the run = channel objects created
	Tracks     map[string][]string `json:"tracks"`
	Files      map[string][]string `json:"files"` // channel -> sorted "track/file"
	// raw-segment mode: stored files that are not the bytes of the last upload answered 200 under that name
	Content []string            `json:"content,omitempty"`
	MPDs    map[string]bool     `json:"mpds"`
	Masters map[string]string   `json:"masters"` // channel -> masterTrName
	TrIDs   map[string][]string `json:"trids"`
	// Register scenarios: number of rounds per (master, keys, trIDs) outcome
	RegOutcomes map[string]int `json:"reg_outcomes,omitempty"`
	Hangs       int            `json:"hangs,omitempty"` // Receiving scenarios: rounds that did not finish
	// final per-track buffers (numbers) and latest published number of every channel
	Buffers map[string]map[string][]uint32 `json:"buffers,omitempty"`
	Latest  map[string]uint32              `json:"latest,omitempty"`
	// Feed scenarios: per channel, the summary of manifest_timeline_nr.mpd after every number
	MPDTrace map[string][]string `json:"mpd_trace,omitempty"`
	// manifest.mpd of every channel: id, bandwidth and frame rate of every Representation
	Manifest map[string]string `json:"manifest,omitempty"`
}

func manifestSummary(storage, chn string) string {
	data, err := os.ReadFile(filepath.Join(storage, chn, "manifest.mpd"))
	if err != nil {
		return "none"
	}
	m, err := mpd.MPDFromBytes(data)
	if err != nil || len(m.Periods) != 1 {
		return "not-a-complete-document"
	}
	var l []string
	for _, as := range m.Periods[0].AdaptationSets {
		for _, r := range as.Representations {
			l = append(l, fmt.Sprintf("%s:bw=%d:fr=%s", r.Id, r.Bandwidth, r.FrameRate))
		}
	}
	sort.Strings(l)
	return strings.Join(l, " ")
}

// segment with mfhd number seqIn and time timeNr * duration (a shifted channel when they differ)
func segmentAt(tr Track, seqIn uint32, timeNr uint64) []byte {
	data, err := os.ReadFile(filepath.Join(testdata, tr.Asset, "0"+tr.Ext))
	if err != nil {
		panic(err)
	}
	f, err := mp4.DecodeFile(bytes.NewReader(data))
	if err != nil {
		panic(err)
	}
	seg := f.Segments[0]
	for _, fr := range seg.Fragments {
		fr.Moof.Mfhd.SequenceNumber = seqIn
		dur := fr.Moof.Traf.Trun.Duration(fr.Moof.Traf.Tfhd.DefaultSampleDuration)
		fr.Moof.Traf.Tfdt.SetBaseMediaDecodeTime(timeNr * dur)
	}
	var buf bytes.Buffer
	if err := seg.Encode(&buf); err != nil {
		panic(err)
	}
	return buf.Bytes()
}

// summary of a channel's timeline MPD: per adaptation set startNumber, first t and number of listed segments
func mpdSummary(storage, chn string) string {
	data, err := os.ReadFile(filepath.Join(storage, chn, "manifest_timeline_nr.mpd"))
	if err != nil {
		return "none"
	}
	m, err := mpd.MPDFromBytes(data)
	if err != nil || len(m.Periods) != 1 {
		return "not-a-complete-document"
	}
	out := ""
	for _, as := range m.Periods[0].AdaptationSets {
		if as.SegmentTemplate == nil || as.SegmentTemplate.SegmentTimeline == nil || as.SegmentTemplate.StartNumber == nil {
			out += "[no-timeline]"
			continue
		}
		n, t0 := 0, int64(-1)
		for i, e := range as.SegmentTemplate.SegmentTimeline.S {
			if i == 0 && e.T != nil {
				t0 = int64(*e.T)
			}
			n += int(e.R) + 1
		}
		out += fmt.Sprintf("[start=%d t=%d n=%d reps=%d]", *as.SegmentTemplate.StartNumber, t0, n, len(as.Representations))
	}
	return out
}

// gate: the bodies of all uploads of a phase stop half-way until all of them have got there
type gate struct {
	want int32
	n    int32
	ch   chan struct{}
	once sync.Once
}

func newGate(want int) *gate {
	g := &gate{want: int32(want), ch: make(chan struct{})}
	time.AfterFunc(1500*time.Millisecond, g.open)
	return g
}
func (g *gate) open() { g.once.Do(func() { close(g.ch) }) }
func (g *gate) arrive() {
	if atomic.AddInt32(&g.n, 1) >= g.want {
		g.open()
	}
	<-g.ch
}

type gatedReader struct {
	data   []byte
	pos    int
	g      *gate
	passed bool
	atZero bool // stop before the first byte instead of half-way
}

func (r *gatedReader) Read(p []byte) (int, error) {
	half := len(r.data) / 2
	if r.atZero {
		half = 0
	}
	if !r.passed && r.pos >= half {
		r.passed = true
		r.g.arrive()
	}
	if r.pos >= len(r.data) {
		return 0, io.EOF
	}
	end := len(r.data)
	if !r.passed {
		end = half
	}
	n := copy(p, r.data[r.pos:end])
	r.pos += n
	return n, nil
}

func putGated(router http.Handler, url string, body []byte, auth bool, g *gate) int {
	req := httptest.NewRequest(http.MethodPut, url, &gatedReader{data: body, g: g})
	req.ContentLength = int64(len(body))
	req.Header.Set("Content-Length", strconv.Itoa(len(body)))
	if auth {
		req.SetBasicAuth("user", "secret")
	}
	rr := httptest.NewRecorder()
	router.ServeHTTP(rr, req)
	return rr.Code
}

const testdata = "/repo/cmd/cmaf-ingest-receiver/app/testdata/"

func segment(tr Track, seq uint32) []byte {
	data, err := os.ReadFile(filepath.Join(testdata, tr.Asset, "0"+tr.Ext))
	if err != nil {
		panic(err)
	}
	f, err := mp4.DecodeFile(bytes.NewReader(data))
	if err != nil {
		panic(err)
	}
	seg := f.Segments[0]
	var dur uint64
	for _, fr := range seg.Fragments {
		fr.Moof.Mfhd.SequenceNumber = seq
		dur = fr.Moof.Traf.Trun.Duration(fr.Moof.Traf.Tfhd.DefaultSampleDuration)
		fr.Moof.Traf.Tfdt.SetBaseMediaDecodeTime(uint64(seq) * dur)
	}
	var buf bytes.Buffer
	if err := seg.Encode(&buf); err != nil {
		panic(err)
	}
	return buf.Bytes()
}

func put(router http.Handler, url string, body []byte, auth bool) int {
	return putReader(router, url, body, auth, false)
}

// dataWithEOF: the body's last read returns its data together with io.EOF (what a net/http body with
// Content-Length usually does) instead of (0, io.EOF) on a further read
func putReader(router http.Handler, url string, body []byte, auth, dataWithEOF bool) int {
	var rd io.Reader = bytes.NewReader(body)
	if dataWithEOF {
		rd = iotest.DataErrReader(rd)
	}
	req := httptest.NewRequest(http.MethodPut, url, rd)
	req.ContentLength = int64(len(body))
	req.Header.Set("Content-Length", strconv.Itoa(len(body)))
	if auth {
		req.SetBasicAuth("user", "secret")
	}
	rr := httptest.NewRecorder()
	router.ServeHTTP(rr, req)
	return rr.Code
}

// number of live channel goroutines (channel.run), read from the goroutine dump: one per channel object
func channelGoroutines() int {
	buf := make([]byte, 4<<20)
	n := runtime.Stack(buf, true)
	return strings.Count(string(buf[:n]), "cmaf-ingest-receiver/app.(*channel).run(")
}

func runOnce(si, round int, sc Scenario) Outcome {
	root := ""
	if st, err := os.Stat("/dev/shm"); err == nil && st.IsDir() {
		root = "/dev/shm"
	}
	storage, err := os.MkdirTemp(root, "c19-")
	if err != nil {
		panic(err)
	}
	defer os.RemoveAll(storage)
	cfg := app.GetEmptyConfig()
	if sc.Auth {
		cfg.DefaultUser, cfg.DefaultPswd = "user", "secret"
	}
	if sc.Raw {
		for _, chn := range sc.Channels {
			cfg.Channels = append(cfg.Channels, app.ChannelConfig{Name: chn, ReceiveNrRawSegments: 3})
		}
	}
	if sc.RepCfg {
		for _, chn := range sc.Channels {
			cc := app.ChannelConfig{Name: chn}
			for _, tr := range sc.Tracks {
				cc.Reps = append(cc.Reps, app.RepresentationConfig{Name: tr.Name, Language: "en", DisplayName: tr.Name})
			}
			cfg.Channels = append(cfg.Channels, cc)
		}
	}
	// the channel goroutines of the previous run end when their context is cancelled: wait for that
	for i := 0; i < 2000 && channelGoroutines() > 0; i++ {
		time.Sleep(time.Millisecond)
	}
	before := channelGoroutines()
	ctx, cancel := context.WithCancel(context.Background())
	rcv, err := app.VerifNewReceiver(ctx, storage, "/upload", 30, cfg)
	if err != nil {
		panic(err)
	}
	inits := map[string][]byte{}
	segs := map[string][]byte{}
	for _, tr := range sc.Tracks {
		b, err := os.ReadFile(filepath.Join(testdata, tr.Asset, "init_org"+tr.Ext))
		if err != nil {
			panic(err)
		}
		inits[tr.Name] = b
		segs[tr.Name] = segment(tr, 1)
	}
	out := Outcome{Scenario: si, Round: round, Statuses: map[string]int{}, Tracks: map[string][]string{}, Files: map[string][]string{}, MPDs: map[string]bool{},
		Masters: map[string]string{}, TrIDs: map[string][]string{}}
	var mu sync.Mutex
	start := make(chan struct{})
	var wg sync.WaitGroup
	nUploads := len(sc.Channels) * len(sc.Tracks)
	g1, g2 := newGate(nUploads), newGate(nUploads)
	count := func(code int) {
		mu.Lock()
		out.Statuses[strconv.Itoa(code)]++
		mu.Unlock()
	}
	if sc.Feed > 0 {
		out.MPDTrace = map[string][]string{}
		for _, chn := range sc.Channels {
			for _, tr := range sc.Tracks {
				count(put(rcv.Router, fmt.Sprintf("/upload/%s/%s/init%s", chn, tr.Name, tr.Ext), inits[tr.Name], sc.Auth))
			}
		}
		feedOne := func(k int, chn string, nr int) {
			base := uint32(100 * (k + 1))
			for _, tr := range sc.Tracks {
				count(put(rcv.Router, fmt.Sprintf("/upload/%s/%s/%d%s", chn, tr.Name, base+uint32(nr), tr.Ext), segment(tr, base+uint32(nr)), sc.Auth))
			}
			rcv.Sync(chn)
			sum := mpdSummary(storage, chn)
			mu.Lock()
			out.MPDTrace[chn] = append(out.MPDTrace[chn], sum)
			mu.Unlock()
		}
		for nr := 1; nr <= sc.Feed; nr++ {
			if sc.Sequential {
				for k, chn := range sc.Channels {
					feedOne(k, chn, nr)
				}
				continue
			}
			var fw sync.WaitGroup
			go_ := make(chan struct{})
			for k, chn := range sc.Channels {
				fw.Add(1)
				go func(k int, chn string) {
					defer fw.Done()
					<-go_
					feedOne(k, chn, nr)
				}(k, chn)
			}
			close(go_)
			fw.Wait()
		}
	}
	if sc.Restart {
		chn := sc.Channels[0]
		half := (len(sc.Tracks) + 1) / 2
		for _, tr := range sc.Tracks[:half] { // the earlier run that left its files
			count(put(rcv.Router, fmt.Sprintf("/upload/%s/%s/init%s", chn, tr.Name, tr.Ext), inits[tr.Name], true))
			count(put(rcv.Router, fmt.Sprintf("/upload/%s/%s/1%s", chn, tr.Name, tr.Ext), segs[tr.Name], true))
		}
		rcv.Sync(chn)
		cancel()
		for i := 0; i < 2000 && channelGoroutines() > before; i++ {
			time.Sleep(time.Millisecond)
		}
		ctx, cancel = context.WithCancel(context.Background())
		rcv, err = app.VerifNewReceiver(ctx, storage, "/upload", 30, cfg) // the restarted receiver
		if err != nil {
			panic(err)
		}
		one := func(i int, tr Track) {
			seg2 := segment(tr, 2)
			count(put(rcv.Router, fmt.Sprintf("/upload/%s/%s/2%s", chn, tr.Name, tr.Ext), seg2, false)) // no credentials
			if i >= half {
				count(put(rcv.Router, fmt.Sprintf("/upload/%s/%s/init%s", chn, tr.Name, tr.Ext), inits[tr.Name], true))
			}
			withEOF := sc.Raw && (round+i)%2 == 0 // raw mode copies the body itself: both ways a body can end
			count(putReader(rcv.Router, fmt.Sprintf("/upload/%s/%s/2%s", chn, tr.Name, tr.Ext), seg2, true, withEOF))
			if sc.Raw {
				// the restarted receiver counts its raw files from 0 again: it writes over the files of the earlier run,
				// the first one with a longer body, the second one with a shorter body
				last := [2][]byte{inits[tr.Name], seg2}
				if i < half {
					short := seg2[:len(seg2)/3]
					count(putReader(rcv.Router, fmt.Sprintf("/upload/%s/%s/3%s", chn, tr.Name, tr.Ext), short, true, !withEOF))
					last = [2][]byte{seg2, short}
				}
				for k, want := range last {
					name := fmt.Sprintf("%s_init_%d%s", tr.Name, k, tr.Ext)
					got, err := os.ReadFile(filepath.Join(storage, chn, tr.Name, name))
					if err != nil || !bytes.Equal(got, want) {
						mu.Lock()
						out.Content = append(out.Content, fmt.Sprintf("%s/%s has %d bytes (%v), the last upload stored under that name had %d", tr.Name, name, len(got), err, len(want)))
						mu.Unlock()
					}
				}
			}
		}
		var rw sync.WaitGroup
		go_ := make(chan struct{})
		for i, tr := range sc.Tracks {
			if sc.Sequential {
				one(i, tr)
				continue
			}
			rw.Add(1)
			go func(i int, tr Track) {
				defer rw.Done()
				<-go_
				one(i, tr)
			}(i, tr)
		}
		close(go_)
		rw.Wait()
	}
	if sc.StartReg {
		chn := sc.Channels[0]
		n := len(sc.Tracks)
		late := sc.Tracks[n-1]
		for _, tr := range sc.Tracks[:n-1] {
			count(put(rcv.Router, fmt.Sprintf("/upload/%s/%s/init%s", chn, tr.Name, tr.Ext), inits[tr.Name], sc.Auth))
			count(put(rcv.Router, fmt.Sprintf("/upload/%s/%s/1%s", chn, tr.Name, tr.Ext), segs[tr.Name], sc.Auth))
		}
		rcv.Sync(chn)
		master := sc.Tracks[0]
		if sc.Sequential && sc.LateFirst {
			count(put(rcv.Router, fmt.Sprintf("/upload/%s/%s/init%s", chn, late.Name, late.Ext), inits[late.Name], sc.Auth))
			count(put(rcv.Router, fmt.Sprintf("/upload/%s/%s/2%s", chn, master.Name, master.Ext), segment(master, 2), sc.Auth))
		} else if sc.Sequential {
			count(put(rcv.Router, fmt.Sprintf("/upload/%s/%s/2%s", chn, master.Name, master.Ext), segment(master, 2), sc.Auth))
			rcv.Sync(chn)
			count(put(rcv.Router, fmt.Sprintf("/upload/%s/%s/init%s", chn, late.Name, late.Ext), inits[late.Name], sc.Auth))
		} else {
			release, _ := rcv.HoldMPD(chn)
			var lw sync.WaitGroup
			lateInit := func() {
				lw.Add(1)
				go func() {
					defer lw.Done()
					count(put(rcv.Router, fmt.Sprintf("/upload/%s/%s/init%s", chn, late.Name, late.Ext), inits[late.Name], sc.Auth))
				}()
				time.Sleep(20 * time.Millisecond) // the handler waits for the MPD mutex
			}
			masterSeg := func() {
				count(put(rcv.Router, fmt.Sprintf("/upload/%s/%s/2%s", chn, master.Name, master.Ext), segment(master, 2), sc.Auth))
				time.Sleep(20 * time.Millisecond) // the channel goroutine is in its start-up derivation, waiting for the mutex
			}
			// who waits for the mutex first gets it first: both orders
			if round%2 == 0 {
				lateInit()
				masterSeg()
			} else {
				masterSeg()
				lateInit()
			}
			release()
			lw.Wait()
		}
		rcv.Sync(chn)
		for _, tr := range sc.Tracks[1 : n-1] {
			count(put(rcv.Router, fmt.Sprintf("/upload/%s/%s/2%s", chn, tr.Name, tr.Ext), segment(tr, 2), sc.Auth))
		}
		count(put(rcv.Router, fmt.Sprintf("/upload/%s/%s/1%s", chn, late.Name, late.Ext), segs[late.Name], sc.Auth))
		rcv.Sync(chn)
	}
	if sc.OpenStart {
		chn := sc.Channels[0]
		const in0, t0 = 8090, 449002889
		for _, tr := range sc.Tracks {
			count(put(rcv.Router, fmt.Sprintf("/upload/%s/%s/init%s", chn, tr.Name, tr.Ext), inits[tr.Name], sc.Auth))
		}
		for _, tr := range sc.Tracks {
			count(put(rcv.Router, fmt.Sprintf("/upload/%s/%s/%d%s", chn, tr.Name, in0, tr.Ext), segmentAt(tr, in0, t0), sc.Auth))
		}
		rcv.Sync(chn)
		master, other := sc.Tracks[0], sc.Tracks[1:]
		if sc.Sequential {
			for _, tr := range other {
				count(put(rcv.Router, fmt.Sprintf("/upload/%s/%s/%d%s", chn, tr.Name, in0+1, tr.Ext), segmentAt(tr, in0+1, t0+1), sc.Auth))
			}
			count(put(rcv.Router, fmt.Sprintf("/upload/%s/%s/%d%s", chn, master.Name, in0+1, master.Ext), segmentAt(master, in0+1, t0+1), sc.Auth))
		} else {
			g := newGate(1 << 30) // opened by hand (or by its timer)
			var ow sync.WaitGroup
			for _, tr := range other {
				ow.Add(1)
				go func(tr Track) {
					defer ow.Done()
					body := segmentAt(tr, in0+1, t0+1)
					req := httptest.NewRequest(http.MethodPut, fmt.Sprintf("/upload/%s/%s/%d%s", chn, tr.Name, in0+1, tr.Ext), &gatedReader{data: body, g: g, atZero: true})
					req.ContentLength = int64(len(body))
					req.Header.Set("Content-Length", strconv.Itoa(len(body)))
					rr := httptest.NewRecorder()
					rcv.Router.ServeHTTP(rr, req)
					count(rr.Code)
				}(tr)
			}
			time.Sleep(20 * time.Millisecond) // the uploads are open: the handlers wait for the first byte
			count(put(rcv.Router, fmt.Sprintf("/upload/%s/%s/%d%s", chn, master.Name, in0+1, master.Ext), segmentAt(master, in0+1, t0+1), sc.Auth))
			rcv.Sync(chn) // the channel has started (shifted)
			g.open()
			ow.Wait()
		}
		rcv.Sync(chn)
		for k := uint32(2); k <= 3; k++ {
			for _, tr := range sc.Tracks {
				count(put(rcv.Router, fmt.Sprintf("/upload/%s/%s/%d%s", chn, tr.Name, in0+k, tr.Ext), segmentAt(tr, in0+k, t0+uint64(k)), sc.Auth))
			}
		}
		rcv.Sync(chn)
	}
	if sc.Overlap {
		chn := sc.Channels[0]
		for _, tr := range sc.Tracks {
			count(put(rcv.Router, fmt.Sprintf("/upload/%s/%s/init%s", chn, tr.Name, tr.Ext), inits[tr.Name], sc.Auth))
			count(put(rcv.Router, fmt.Sprintf("/upload/%s/%s/1%s", chn, tr.Name, tr.Ext), segs[tr.Name], sc.Auth))
		}
		rcv.Sync(chn)
		one := func(tr Track) {
			s2, s3 := segment(tr, 2), segment(tr, 3)
			if sc.Sequential {
				count(put(rcv.Router, fmt.Sprintf("/upload/%s/%s/3%s", chn, tr.Name, tr.Ext), s3, sc.Auth))
				if sc.ReInit {
					count(put(rcv.Router, fmt.Sprintf("/upload/%s/%s/init%s", chn, tr.Name, tr.Ext), inits[tr.Name], sc.Auth))
				}
				count(put(rcv.Router, fmt.Sprintf("/upload/%s/%s/2%s", chn, tr.Name, tr.Ext), s2, sc.Auth))
				return
			}
			g := newGate(1 << 30) // opened by hand
			done := make(chan struct{})
			go func() {
				defer close(done)
				count(putGated(rcv.Router, fmt.Sprintf("/upload/%s/%s/2%s", chn, tr.Name, tr.Ext), s2, sc.Auth, g))
			}()
			time.Sleep(10 * time.Millisecond) // the first half of segment 2 has been taken in
			count(put(rcv.Router, fmt.Sprintf("/upload/%s/%s/3%s", chn, tr.Name, tr.Ext), s3, sc.Auth))
			if sc.ReInit {
				count(put(rcv.Router, fmt.Sprintf("/upload/%s/%s/init%s", chn, tr.Name, tr.Ext), inits[tr.Name], sc.Auth))
			}
			g.open()
			<-done
		}
		var ow sync.WaitGroup
		for _, tr := range sc.Tracks {
			if sc.Sequential {
				one(tr)
				continue
			}
			ow.Add(1)
			go func(tr Track) { defer ow.Done(); one(tr) }(tr)
		}
		ow.Wait()
		rcv.Sync(chn)
	}
	if len(sc.Collide) > 0 {
		tr0 := sc.Tracks[0]
		for _, p := range sc.Collide { // the earlier run
			count(put(rcv.Router, fmt.Sprintf("/upload/%s/%s/init%s", p[0], p[1], tr0.Ext), inits[tr0.Name], sc.Auth))
			count(put(rcv.Router, fmt.Sprintf("/upload/%s/%s/1%s", p[0], p[1], tr0.Ext), segs[tr0.Name], sc.Auth))
		}
		for _, p := range sc.Collide {
			rcv.Sync(p[0])
		}
		cancel()
		for i := 0; i < 2000 && channelGoroutines() > before; i++ {
			time.Sleep(time.Millisecond)
		}
		ctx, cancel = context.WithCancel(context.Background())
		rcv, err = app.VerifNewReceiver(ctx, storage, "/upload", 30, cfg)
		if err != nil {
			panic(err)
		}
		var cw sync.WaitGroup
		go_ := make(chan struct{})
		for k, p := range sc.Collide {
			up := func(k int, p [2]string) {
				count(put(rcv.Router, fmt.Sprintf("/upload/%s/%s/%d%s", p[0], p[1], 2+k, tr0.Ext), segment(tr0, uint32(2+k)), sc.Auth))
			}
			if sc.Sequential {
				up(k, p)
				continue
			}
			cw.Add(1)
			go func(k int, p [2]string) { defer cw.Done(); <-go_; up(k, p) }(k, p)
		}
		close(go_)
		cw.Wait()
		for _, p := range sc.Collide {
			rcv.Sync(p[0])
		}
		// second uploads, in turn
		for k, p := range sc.Collide {
			count(put(rcv.Router, fmt.Sprintf("/upload/%s/%s/%d%s", p[0], p[1], 12+k, tr0.Ext), segment(tr0, uint32(12+k)), sc.Auth))
		}
	}
	if sc.LastRound > 0 {
		chn := sc.Channels[0]
		for _, tr := range sc.Tracks {
			count(put(rcv.Router, fmt.Sprintf("/upload/%s/%s/init%s", chn, tr.Name, tr.Ext), inits[tr.Name], sc.Auth))
		}
		for nr := uint32(1); nr <= 3; nr++ {
			for _, tr := range sc.Tracks {
				count(put(rcv.Router, fmt.Sprintf("/upload/%s/%s/%d%s", chn, tr.Name, nr, tr.Ext), segment(tr, nr), sc.Auth))
			}
			rcv.Sync(chn)
		}
		again := sc.Tracks
		if sc.LastRound == 1 {
			again = sc.Tracks[round%len(sc.Tracks):][:1]
		}
		reinit := func(tr Track) {
			count(put(rcv.Router, fmt.Sprintf("/upload/%s/%s/init%s", chn, tr.Name, tr.Ext), inits[tr.Name], sc.Auth))
		}
		last := func(tr Track) {
			count(put(rcv.Router, fmt.Sprintf("/upload/%s/%s/4%s", chn, tr.Name, tr.Ext), segment(tr, 4), sc.Auth))
		}
		var lw sync.WaitGroup
		switch {
		case sc.Sequential:
			for _, tr := range again {
				reinit(tr)
			}
			for _, tr := range sc.Tracks {
				last(tr)
			}
		case sc.LastRound == 1:
			release, _ := rcv.HoldMPD(chn)
			for _, tr := range again {
				lw.Add(1)
				go func(tr Track) { defer lw.Done(); reinit(tr) }(tr)
			}
			time.Sleep(20 * time.Millisecond) // the registration waits for the MPD mutex
			for _, tr := range sc.Tracks {
				last(tr)
			}
			time.Sleep(30 * time.Millisecond) // the channel goroutine has got the report that completes number 4
			release()
		default:
			go_ := make(chan struct{})
			for _, tr := range sc.Tracks {
				lw.Add(2)
				go func(tr Track) { defer lw.Done(); <-go_; reinit(tr) }(tr)
				go func(tr Track) { defer lw.Done(); <-go_; last(tr) }(tr)
			}
			close(go_)
		}
		lw.Wait()
		rcv.Sync(chn)
		out.MPDTrace = map[string][]string{chn: {mpdSummary(storage, chn)}}
	}
	if sc.Backlog {
		chn := sc.Channels[0]
		seg := func(tr Track, nr uint32) []byte { return segment(tr, nr) }
		for _, tr := range sc.Tracks {
			count(put(rcv.Router, fmt.Sprintf("/upload/%s/%s/init%s", chn, tr.Name, tr.Ext), inits[tr.Name], sc.Auth))
		}
		for nr := uint32(1); nr <= 3; nr++ {
			for _, tr := range sc.Tracks {
				count(put(rcv.Router, fmt.Sprintf("/upload/%s/%s/%d%s", chn, tr.Name, nr, tr.Ext), seg(tr, nr), sc.Auth))
			}
			rcv.Sync(chn)
		}
		release := func() {}
		if !sc.Sequential {
			release, _ = rcv.HoldMPD(chn)
		}
		for _, tr := range sc.Tracks {
			count(put(rcv.Router, fmt.Sprintf("/upload/%s/%s/4%s", chn, tr.Name, tr.Ext), seg(tr, 4), sc.Auth))
		}
		bodies := map[string][]byte{}
		for _, tr := range sc.Tracks {
			bodies[tr.Name] = seg(tr, 5)
		}
		if sc.Sequential {
			for _, tr := range sc.Tracks {
				count(put(rcv.Router, fmt.Sprintf("/upload/%s/%s/5%s", chn, tr.Name, tr.Ext), bodies[tr.Name], sc.Auth))
			}
		} else {
			for _, tr := range sc.Tracks {
				wg.Add(1)
				go func(tr Track) {
					defer wg.Done()
					<-start
					count(put(rcv.Router, fmt.Sprintf("/upload/%s/%s/5%s", chn, tr.Name, tr.Ext), bodies[tr.Name], sc.Auth))
				}(tr)
			}
			close(start)
			time.Sleep(150 * time.Millisecond) // the uploads are in flight, their messages are outstanding
			release()
			wg.Wait()
		}
		start = make(chan struct{}) // not used any more
	}
	upload := func(chn string, tr Track) {
		var c1, c2 int
		if sc.Gated && !sc.Sequential {
			c1 = putGated(rcv.Router, fmt.Sprintf("/upload/%s/%s/init%s", chn, tr.Name, tr.Ext), inits[tr.Name], sc.Auth, g1)
			c2 = putGated(rcv.Router, fmt.Sprintf("/upload/%s/%s/1%s", chn, tr.Name, tr.Ext), segs[tr.Name], sc.Auth, g2)
		} else {
			c1 = put(rcv.Router, fmt.Sprintf("/upload/%s/%s/init%s", chn, tr.Name, tr.Ext), inits[tr.Name], sc.Auth)
			c2 = put(rcv.Router, fmt.Sprintf("/upload/%s/%s/1%s", chn, tr.Name, tr.Ext), segs[tr.Name], sc.Auth)
		}
		mu.Lock()
		out.Statuses[strconv.Itoa(c1)]++
		out.Statuses[strconv.Itoa(c2)]++
		mu.Unlock()
	}
	for _, chn := range sc.Channels {
		if sc.Backlog || sc.Feed > 0 || sc.Restart || sc.StartReg || sc.OpenStart || sc.Overlap || sc.LastRound > 0 || len(sc.Collide) > 0 {
			break
		}
		for _, tr := range sc.Tracks {
			if sc.Sequential {
				upload(chn, tr)
				continue
			}
			wg.Add(1)
			go func(chn string, tr Track) {
				defer wg.Done()
				<-start
				upload(chn, tr)
			}(chn, tr)
		}
	}
	if !sc.Backlog {
		close(start)
	}
	wg.Wait()
	for _, chn := range sc.Channels {
		rcv.Sync(chn)
	}
	out.Manifest = map[string]string{}
	for _, chn := range sc.Channels {
		out.Manifest[chn] = manifestSummary(storage, chn)
	}
	out.Buffers = map[string]map[string][]uint32{}
	out.Latest = map[string]uint32{}
	for _, chn := range sc.Channels {
		if st, ok := rcv.ChannelState(chn); ok {
			out.Latest[chn] = st.Gen.LatestSeqNr
			out.Buffers[chn] = map[string][]uint32{}
			for name, b := range st.Gen.Buffers {
				var l []uint32
				for i := 0; i < int(b.NrItems) && i < len(b.Items); i++ {
					l = append(l, b.Items[i].SeqNr)
				}
				out.Buffers[chn][name] = l
			}
		}
	}
	time.Sleep(2 * time.Millisecond)
	out.Goroutines = channelGoroutines() - before
	out.Channels = rcv.ChannelNames()
	for _, chn := range sc.Channels {
		out.Tracks[chn] = rcv.TrackNames(chn)
		if tt, ok := rcv.TrackTable(chn); ok {
			out.Masters[chn] = tt.Master
			out.TrIDs[chn] = tt.TrIDs
		}
		var files []string
		for _, tr := range sc.Tracks {
			ents, _ := os.ReadDir(filepath.Join(storage, chn, tr.Name))
			for _, e := range ents {
				files = append(files, tr.Name+"/"+e.Name())
			}
		}
		for _, p := range sc.Collide {
			if p[0] == chn {
				ents, _ := os.ReadDir(filepath.Join(storage, chn, p[1]))
				for _, e := range ents {
					files = append(files, p[1]+"/"+e.Name())
				}
			}
		}
		sort.Strings(files)
		out.Files[chn] = files
		if _, err := os.Stat(filepath.Join(storage, chn, "manifest_timeline_nr.mpd")); err == nil {
			out.MPDs[chn] = true
		}
	}
	cancel()
	time.Sleep(2 * time.Millisecond)
	return out
}

func main() {
	slog.SetDefault(slog.New(slog.NewTextHandler(io.Discard, nil)))
	var scs []Scenario
	data, err := os.ReadFile(os.Args[1])
	if err != nil {
		panic(err)
	}
	if err := json.Unmarshal(data, &scs); err != nil {
		panic(err)
	}
	first := 0
	if len(os.Args) > 2 {
		first, _ = strconv.Atoi(os.Args[2])
	}
	for si := first; si < len(scs); si++ {
		if scs[si].Receiving > 0 {
			fmt.Fprintf(os.Stderr, "@@ scenario %d receiving\n", si)
			var names, types []string
			for _, t := range scs[si].Tracks {
				names = append(names, t.Name)
				types = append(types, t.Media)
			}
			o := Outcome{Scenario: si, RegOutcomes: map[string]int{}}
			for r := 0; r < scs[si].Receiving && o.Hangs < 3; r++ {
				ok, tt := app.VerifRegisterWhileReceiving(names, types, 300, 25, 3*time.Second)
				if !ok {
					o.Hangs++
					continue
				}
				o.RegOutcomes[fmt.Sprintf("master=%s keys=%v", tt.Master, tt.Keys)]++
			}
			b, _ := json.Marshal(o)
			fmt.Printf("@@O %s\n", b)
			continue
		}
		if scs[si].Register > 0 {
			fmt.Fprintf(os.Stderr, "@@ scenario %d register\n", si)
			var names, types []string
			for _, t := range scs[si].Tracks {
				names = append(names, t.Name)
				types = append(types, t.Media)
			}
			o := Outcome{Scenario: si, RegOutcomes: map[string]int{}}
			for r := 0; r < scs[si].Register; r++ {
				tt := app.VerifRegisterConcurrently(names, types, scs[si].Sequential)
				o.RegOutcomes[fmt.Sprintf("master=%s keys=%v trIDs=%v", tt.Master, tt.Keys, tt.TrIDs)]++
			}
			b, _ := json.Marshal(o)
			fmt.Printf("@@O %s\n", b)
			continue
		}
		for r := 0; r < scs[si].Rounds; r++ {
			fmt.Fprintf(os.Stderr, "@@ scenario %d round %d\n", si, r)
			o := runOnce(si, r, scs[si])
			b, _ := json.Marshal(o)
			fmt.Printf("@@O %s\n", b)
		}
	}
}
