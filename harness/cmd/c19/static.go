package main

// Static lock re-entrancy check over the sources of the receiver package (all schedules): a method that
// holds a mutex of its receiver (x.mu.Lock/RLock ... Unlock/RUnlock, or until the end after a deferred
// unlock) must not call a method of the same receiver that acquires the same mutex again, directly or
// through further methods of the receiver. sync.Mutex is not re-entrant (self-deadlock), and a recursive
// RLock of a sync.RWMutex deadlocks as soon as a writer waits between the two read locks.

import (
	"fmt"
	"go/ast"
	"go/parser"
	"go/token"
	"os"
	"os/exec"
	"path/filepath"
	"sort"
	"strings"

	"verifharness/lib"
)

type lockUse struct {
	mutex string // field name of the mutex
}

type methInfo struct {
	recvType string
	recvName string
	name     string
	decl     *ast.FuncDecl
	acquires map[string]bool // mutex fields of the receiver locked directly in the body
	calls    map[string]bool // methods of the same receiver called anywhere in the body
}

// x.mu.Lock() etc. on the receiver: returns mutex field and operation
func recvLockCall(e ast.Expr, recv string) (mutex, op string, ok bool) {
	call, isCall := e.(*ast.CallExpr)
	if !isCall {
		return
	}
	sel, isSel := call.Fun.(*ast.SelectorExpr)
	if !isSel {
		return
	}
	inner, isSel2 := sel.X.(*ast.SelectorExpr)
	if !isSel2 {
		return
	}
	id, isID := inner.X.(*ast.Ident)
	if !isID || id.Name != recv {
		return
	}
	switch sel.Sel.Name {
	case "Lock", "RLock", "Unlock", "RUnlock":
		return inner.Sel.Name, sel.Sel.Name, true
	}
	return
}

// method of the same receiver called by this expression
func recvMethodCall(n ast.Node, recv string) (string, bool) {
	call, ok := n.(*ast.CallExpr)
	if !ok {
		return "", false
	}
	sel, ok := call.Fun.(*ast.SelectorExpr)
	if !ok {
		return "", false
	}
	id, ok := sel.X.(*ast.Ident)
	if !ok || id.Name != recv {
		return "", false
	}
	return sel.Sel.Name, true
}

func staticLockOrder(c *lib.Ctx) {
	out, err := exec.Command("go", "list", "-tags", "verif", "-f", "{{.Dir}}", "github.com/Dash-Industry-Forum/livesim2/cmd/cmaf-ingest-receiver/app").Output()
	if err != nil {
		c.Res.Notes = append(c.Res.Notes, "static lock check skipped: go list failed: "+err.Error())
		return
	}
	dir := strings.TrimSpace(string(out))
	files, _ := filepath.Glob(filepath.Join(dir, "*.go"))
	fset := token.NewFileSet()
	meths := map[string]*methInfo{} // "Type.method"
	for _, f := range files {
		base := filepath.Base(f)
		if strings.HasSuffix(base, "_test.go") || strings.HasPrefix(base, "verif_hooks") {
			continue
		}
		src, err := os.ReadFile(f)
		if err != nil {
			continue
		}
		af, err := parser.ParseFile(fset, f, src, 0)
		if err != nil {
			continue
		}
		for _, d := range af.Decls {
			fd, ok := d.(*ast.FuncDecl)
			if !ok || fd.Recv == nil || len(fd.Recv.List) != 1 || len(fd.Recv.List[0].Names) != 1 || fd.Body == nil {
				continue
			}
			t := fd.Recv.List[0].Type
			if st, ok := t.(*ast.StarExpr); ok {
				t = st.X
			}
			tid, ok := t.(*ast.Ident)
			if !ok {
				continue
			}
			m := &methInfo{recvType: tid.Name, recvName: fd.Recv.List[0].Names[0].Name, name: fd.Name.Name, decl: fd,
				acquires: map[string]bool{}, calls: map[string]bool{}}
			ast.Inspect(fd.Body, func(n ast.Node) bool {
				if e, ok := n.(ast.Expr); ok {
					if mu, op, ok := recvLockCall(e, m.recvName); ok && (op == "Lock" || op == "RLock") {
						m.acquires[mu] = true
					}
				}
				if name, ok := recvMethodCall(n, m.recvName); ok {
					m.calls[name] = true
				}
				return true
			})
			meths[m.recvType+"."+m.name] = m
		}
	}
	// transitive: which mutexes a method may acquire through methods of the same receiver
	may := map[string]map[string]bool{}
	for k, m := range meths {
		may[k] = map[string]bool{}
		for mu := range m.acquires {
			may[k][mu] = true
		}
	}
	for changed := true; changed; {
		changed = false
		for k, m := range meths {
			for callee := range m.calls {
				for mu := range may[m.recvType+"."+callee] {
					if !may[k][mu] {
						may[k][mu] = true
						changed = true
					}
				}
			}
		}
	}
	// walk each body in source order with the set of held mutexes (block structured, a deferred unlock holds to the end)
	type finding struct{ key, what string }
	var found []finding
	nHeldCalls := 0
	for k, m := range meths {
		var walk func(stmts []ast.Stmt, held map[string]bool)
		checkCalls := func(n ast.Node, held map[string]bool) {
			if len(held) == 0 || n == nil {
				return
			}
			ast.Inspect(n, func(x ast.Node) bool {
				if _, isLit := x.(*ast.FuncLit); isLit {
					return false
				}
				if callee, ok := recvMethodCall(x, m.recvName); ok {
					nHeldCalls++
					for mu := range held {
						if may[m.recvType+"."+callee][mu] {
							pos := fset.Position(x.Pos())
							found = append(found, finding{
								key:  fmt.Sprintf("lock-reentrant:%s.%s:%s->%s", m.recvType, mu, k, m.recvType+"."+callee),
								what: fmt.Sprintf("%s calls %s.%s at %s:%d while it holds %s.%s, and %s.%s acquires %s.%s again: a self-deadlock (for a read lock: as soon as a writer waits between the two RLocks)", k, m.recvType, callee, filepath.Base(pos.Filename), pos.Line, m.recvName, mu, m.recvType, callee, m.recvName, mu),
							})
						}
					}
				}
				return true
			})
		}
		walk = func(stmts []ast.Stmt, held map[string]bool) {
			for _, s := range stmts {
				switch st := s.(type) {
				case *ast.ExprStmt:
					if mu, op, ok := recvLockCall(st.X, m.recvName); ok {
						if op == "Lock" || op == "RLock" {
							held[mu] = true
						} else {
							delete(held, mu)
						}
						continue
					}
					checkCalls(st, held)
				case *ast.DeferStmt:
					if _, op, ok := recvLockCall(st.Call, m.recvName); ok && (op == "Unlock" || op == "RUnlock") {
						continue // held until the function returns
					}
					checkCalls(st, held)
				case *ast.BlockStmt:
					walk(st.List, held)
				case *ast.IfStmt:
					checkCalls(st.Init, held)
					checkCalls(st.Cond, held)
					walk(st.Body.List, copyHeld(held))
					if st.Else != nil {
						walk([]ast.Stmt{st.Else}, copyHeld(held))
					}
				case *ast.ForStmt:
					checkCalls(st.Init, held)
					checkCalls(st.Cond, held)
					checkCalls(st.Post, held)
					walk(st.Body.List, copyHeld(held))
				case *ast.RangeStmt:
					checkCalls(st.X, held)
					walk(st.Body.List, copyHeld(held))
				case *ast.SwitchStmt:
					checkCalls(st.Init, held)
					checkCalls(st.Tag, held)
					for _, cc := range st.Body.List {
						if cl, ok := cc.(*ast.CaseClause); ok {
							walk(cl.Body, copyHeld(held))
						}
					}
				case *ast.SelectStmt:
					for _, cc := range st.Body.List {
						if cl, ok := cc.(*ast.CommClause); ok {
							walk(cl.Body, copyHeld(held))
						}
					}
				default:
					checkCalls(s, held)
				}
			}
		}
		walk(m.decl.Body.List, map[string]bool{})
	}
	sort.Slice(found, func(i, j int) bool { return found[i].key < found[j].key })
	seen := map[string]bool{}
	for _, f := range found {
		if !seen[f.key] {
			seen[f.key] = true
			c.Fail("static", f.key, f.what, map[string]any{"static": f.key})
		}
	}
	c.Count("static:methods-analysed")
	c.Res.Notes = append(c.Res.Notes, fmt.Sprintf("static lock re-entrancy check: %d methods of the receiver package, %d calls of same-receiver methods made while a mutex of the receiver is held, %d re-entrant acquisitions", len(meths), nHeldCalls, len(seen)))
}

func copyHeld(h map[string]bool) map[string]bool {
	c := map[string]bool{}
	for k, v := range h {
		c[k] = v
	}
	return c
}
