package main

// Bulk: very many distinct addresses in ONE limiting interval (1e5 .. 1e6), with addresses that
// come back at every counter value. The whole run is compared call by call with the harness's own
// reference counter (the statement of the property: the k-th request of an address in the interval
// gets k); the calls of a sample of returning addresses are also handed to the Coq model as
// projected cases - the other addresses' calls cannot influence them (C20_reset_only_after_interval:
// an Inc of one address leaves every other counter alone, and no call here ends the interval).

import (
	"fmt"
	"math/rand"
	"sort"
	"time"

	"github.com/Dash-Industry-Forum/livesim2/cmd/livesim2/app"
	"verifharness/lib"
)

type bulkIn struct {
	Seed      int64 `json:"seed"`
	Addresses int   `json:"distinct_addresses"`
	Returners int   `json:"returning_addresses"`
	Max       int64 `json:"max"`
}

var precomputed = map[*c20in][]c20obs{}

func bulkAddr(i int) string {
	if i%3 == 0 {
		return fmt.Sprintf("%d.%d.%d.%d", 11+i>>24&63, i>>16&255, i>>8&255, i&255)
	}
	return fmt.Sprintf("2001:db8:%x:%x::%x", i>>16, i&0xffff, i%7)
}

// runBulk returns failures and the projected cases for Coq.
func runBulk(c *lib.Ctx, in bulkIn) (fails []lib.Failure, proj []*c20in, calls int) {
	rng := rand.New(rand.NewSource(in.Seed))
	t0 := time.Unix(1_700_000_000, 0)
	interval := 24 * time.Hour
	il, err := app.NewIPRequestLimiter(int(in.Max), interval, t0, "", "")
	if err != nil {
		return []lib.Failure{{Case: "bulk", Key: "constructor", What: err.Error(), Input: c20in{Kind: "bulk", Bulk: &in}}}, nil, 0
	}
	// schedule: position -> address index; every address has a first visit at its own position,
	// returners come back 1..max+2 times at later positions
	type ev struct {
		pos  float64
		addr int
	}
	evs := make([]ev, 0, in.Addresses+in.Returners*4)
	for i := 0; i < in.Addresses; i++ {
		evs = append(evs, ev{float64(i), i})
	}
	returners := map[int]bool{}
	for j := 0; j < in.Returners; j++ {
		a := rng.Intn(in.Addresses)
		returners[a] = true
		for k := 1 + rng.Intn(int(in.Max)+2); k > 0; k-- {
			evs = append(evs, ev{float64(a) + 0.5 + rng.Float64()*float64(in.Addresses-a), a})
		}
	}
	sort.SliceStable(evs, func(i, j int) bool { return evs[i].pos < evs[j].pos })
	want := map[int]int64{}
	sample := map[int]*c20in{}
	var sampleOrder []int
	fail := func(key, what string) {
		if len(fails) < 5 {
			fails = append(fails, lib.Failure{Case: "bulk", Key: key, What: what, Input: c20in{Kind: "bulk", Bulk: &in}})
		}
	}
	for n, e := range evs {
		addr := bulkAddr(e.addr)
		now := t0.Add(time.Duration(n) * time.Microsecond) // all inside the 24 h interval
		nr, mx, ok := il.Inc(now, addr)
		want[e.addr]++
		k := want[e.addr]
		calls++
		if int64(nr) != k {
			key := "bulk:count-sequence"
			if nr == 1 && k > 1 {
				key = "bulk:reset-early"
			}
			fail(key, fmt.Sprintf("call %d of %d, %d distinct addresses so far in the interval: %q got count %d, it is its %d. request in the interval (24 h, began %d calls ago)", n, len(evs), len(want), addr, nr, k, n))
		} else if ok != (k <= in.Max) || int64(mx) != in.Max {
			fail("bulk:quota", fmt.Sprintf("call %d: request %d of %q (max %d): passed=%v max reported %d", n, k, addr, in.Max, ok, mx))
		}
		if returners[e.addr] {
			s, have := sample[e.addr]
			if !have && len(sample) < 40 {
				s = &c20in{Kind: "bulk-projection", Max: in.Max, Interval: int64(interval), StartSec: t0.Unix()}
				sample[e.addr] = s
				sampleOrder = append(sampleOrder, e.addr)
				have = true
			}
			if have {
				s.Ops = append(s.Ops, c20op{Kind: "inc", Sec: now.Unix(), Nsec: int64(now.Nanosecond()), IP: addr})
				precomputed[s] = append(precomputed[s], c20obs{Nr: int64(nr), Mx: int64(mx), Ok: ok})
			}
		}
	}
	for a := range returners {
		if got := int64(il.Count(bulkAddr(a))); got != want[a] {
			fail("bulk:count-read", fmt.Sprintf("Count(%q)=%d after %d requests of that address in the interval (%d distinct addresses)", bulkAddr(a), got, want[a], len(want)))
		}
		if s, ok := sample[a]; ok {
			s.Ops = append(s.Ops, c20op{Kind: "count", IP: bulkAddr(a)})
			precomputed[s] = append(precomputed[s], c20obs{N: int64(il.Count(bulkAddr(a)))})
		}
	}
	for _, a := range sampleOrder {
		proj = append(proj, sample[a])
	}
	return
}
