package main

import (
	"bytes"
	"context"
	"encoding/json"
	"fmt"
	"math/rand"
	"net/http"
	"net/http/httptest"
	"os"
	"os/exec"
	"path/filepath"
	"regexp"
	"runtime"
	"sort"
	"strconv"
	"strings"
	"sync"
	"sync/atomic"
	"time"

	"github.com/Dash-Industry-Forum/livesim2/cmd/livesim2/app"
	"verifharness/lib"
)

// concIn describes one concurrent scenario; everything else is derived from Seed.
type concIn struct {
	Mode       string   `json:"mode"` // barrier | mixed | http
	Seed       int64    `json:"seed"`
	Goroutines int      `json:"goroutines"`
	Phases     int      `json:"phases"`
	PerPhase   int      `json:"calls_per_goroutine_and_phase"`
	Max        int64    `json:"max"`
	IntervalNs int64    `json:"interval_ns"`
	WhiteList  string   `json:"white_list"`
	Addrs      []string `json:"addrs"`
	// LogFile: a reqlimitlog is configured (written inside Inc at every interval end)
	LogFile bool `json:"log_file,omitempty"`
}

type concFail struct {
	Key  string `json:"key"`
	What string `json:"what"`
}

type incRes struct {
	addr   string
	nr, mx int
	ok     bool
}

type readRes struct {
	addr     string
	n        int
	ownIncs  int // completed Inc calls of this goroutine for addr before the read
	end      time.Time
	isEnd    bool
	afterOwn bool // after this goroutine's first Inc of the phase
}

// checkSegments: the multiset of counts handed out for one address must be {1..k} when one epoch
// is involved, a union of at most maxEpochs initial segments otherwise.
func checkSegments(nrs []int, maxEpochs int) (bool, string) {
	mult := map[int]int{}
	hi := 0
	for _, n := range nrs {
		mult[n]++
		if n > hi {
			hi = n
		}
		if n < 1 {
			return false, fmt.Sprintf("count %d handed out", n)
		}
	}
	if mult[1] > maxEpochs {
		return false, fmt.Sprintf("count 1 handed out %d times in %d interval(s)", mult[1], maxEpochs)
	}
	for v := 2; v <= hi; v++ {
		if mult[v] > mult[v-1] {
			return false, fmt.Sprintf("count %d handed out %d times but count %d only %d times (a value was skipped or handed out twice: lost update)", v, mult[v], v-1, mult[v-1])
		}
	}
	return true, ""
}

func runConc(in concIn) []concFail {
	switch in.Mode {
	case "http":
		return runConcHTTP(in)
	default:
		return runConcAPI(in)
	}
}

func runConcAPI(in concIn) (fails []concFail) {
	fail := func(key, what string) {
		if len(fails) < 5 {
			fails = append(fails, concFail{key, what})
		}
	}
	iv := time.Duration(in.IntervalNs)
	t0 := time.Unix(1_700_000_000, 123_456_789)
	logFile := ""
	if in.LogFile {
		dir, err := os.MkdirTemp("", "c20conclog")
		if err != nil {
			fail("setup", err.Error())
			return
		}
		defer os.RemoveAll(dir)
		logFile = filepath.Join(dir, "reqlimit.json")
	}
	il, err := app.NewIPRequestLimiter(int(in.Max), iv, t0, in.WhiteList, logFile)
	if err != nil {
		fail("constructor", err.Error())
		return
	}
	G := in.Goroutines
	for p := 0; p < in.Phases; p++ {
		// barrier mode: every call of phase p carries the instant tp, one interval (+1 s +1 ns) after
		// the previous phase's. mixed mode: one phase, calls carry t0 or t1 at random (one reset).
		tp := t0.Add(time.Duration(p) * (iv + time.Second + 1))
		t1 := t0.Add(iv + 1)
		incs := make([][]incRes, G)
		reads := make([][]readRes, G)
		var wg sync.WaitGroup
		gate := make(chan struct{})
		for g := 0; g < G; g++ {
			wg.Add(1)
			go func(g int) {
				defer wg.Done()
				rng := rand.New(rand.NewSource(in.Seed*1000 + int64(p)*100 + int64(g)))
				own := map[string]int{}
				<-gate
				for j := 0; j < in.PerPhase; j++ {
					a := in.Addrs[rng.Intn(len(in.Addrs))]
					now := tp
					if in.Mode == "mixed" && rng.Intn(2) == 0 {
						now = t1
					}
					if in.Mode == "storm" {
						now = t0.Add(time.Duration(rng.Intn(4)) * time.Second)
					}
					nr, mx, ok := il.Inc(now, a)
					own[a]++
					incs[g] = append(incs[g], incRes{a, nr, mx, ok})
					switch rng.Intn(4) {
					case 0:
						b := in.Addrs[rng.Intn(len(in.Addrs))]
						reads[g] = append(reads[g], readRes{addr: b, n: il.Count(b), ownIncs: own[b], afterOwn: true})
					case 1:
						reads[g] = append(reads[g], readRes{isEnd: true, end: il.EndTime(), afterOwn: true})
					}
				}
			}(g)
		}
		// two goroutines that only read (as /reqcount does), concurrently with the phase's requests
		var phaseDone atomic.Bool
		var rwg sync.WaitGroup
		pureEnds := make([][]time.Time, 2)
		pureCounts := make([][]int, 2)
		{
			for r := 0; r < 2; r++ {
				rwg.Add(1)
				go func(r int) {
					defer rwg.Done()
					<-gate
					for k := 0; k < 200000 && (k < 50 || !phaseDone.Load()); k++ {
						pureEnds[r] = append(pureEnds[r], il.EndTime())
						if r == 0 {
							pureCounts[r] = append(pureCounts[r], il.Count(in.Addrs[0]))
						}
						if k%8 == 0 {
							runtime.Gosched()
						}
					}
				}(r)
			}
		}
		prevEnd := il.EndTime()
		prevCount0 := il.Count(in.Addrs[0])
		close(gate)
		wg.Wait()
		phaseDone.Store(true)
		rwg.Wait()
		// ---- the property on what was handed out
		per := map[string][]incRes{}
		for g := range incs {
			for _, r := range incs[g] {
				per[r.addr] = append(per[r.addr], r)
			}
		}
		for _, a := range in.Addrs {
			rs := per[a]
			nrs := make([]int, len(rs))
			wl := whitelisted(in.WhiteList, a)
			for i, r := range rs {
				nrs[i] = r.nr
				wantOK := wl || int64(r.nr) <= in.Max
				if r.ok != wantOK {
					fail("conc:quota", fmt.Sprintf("phase %d: request with count %d of %q (max %d, white-listed %v) passed=%v", p, r.nr, a, in.Max, wl, r.ok))
				}
				wantMx := int(in.Max)
				if wl {
					wantMx = -1
				}
				if r.mx != wantMx {
					fail("conc:max-reported", fmt.Sprintf("phase %d: max %d reported for %q", p, r.mx, a))
				}
			}
			sort.Ints(nrs)
			epochs := 1
			if in.Mode == "mixed" {
				epochs = 2
			}
			if in.Mode == "storm" {
				// the interval is negative: every request starts a new interval and gets count 1
				for _, n := range nrs {
					if n != 1 {
						fail("conc:reset-missed", fmt.Sprintf("interval %d ns: a request of %q got count %d", in.IntervalNs, a, n))
					}
				}
				continue
			}
			if ok, why := checkSegments(nrs, epochs); !ok {
				fail("conc:lost-update", fmt.Sprintf("phase %d, %d goroutines, %d concurrent requests of %q: %s", p, G, len(nrs), a, why))
			}
			final := il.Count(a)
			if in.Mode == "barrier" {
				if len(nrs) > 0 && nrs[len(nrs)-1] != len(nrs) {
					fail("conc:lost-update", fmt.Sprintf("phase %d: %d requests of %q, highest count handed out %d", p, len(nrs), a, nrs[len(nrs)-1]))
				}
				if final != len(nrs) {
					fail("conc:lost-update", fmt.Sprintf("phase %d: Count(%q)=%d after %d concurrent requests", p, a, final, len(nrs)))
				}
			} else if len(nrs) > 0 {
				// {1..j} ∪ {1..k-j}: the final counter is the length of one of the two segments
				ones := 0
				for _, n := range nrs {
					if n == 1 {
						ones++
					}
				}
				hi := nrs[len(nrs)-1]
				if !(final == hi || final == len(nrs)-hi || (ones == 1 && final == len(nrs))) {
					fail("conc:lost-update", fmt.Sprintf("mixed instants: Count(%q)=%d after %d requests with highest count %d", a, final, len(nrs), hi))
				}
			}
		}
		// pure readers: EndTime is the end of the previous or of the current interval, never a mixture
		{
			ends := []time.Time{prevEnd, tp.Add(iv), t1.Add(iv)}
			if in.Mode == "storm" {
				for k := 0; k < 4; k++ {
					ends = append(ends, t0.Add(time.Duration(k)*time.Second).Add(iv))
				}
			}
			hiCount := len(per[in.Addrs[0]])
			if prevCount0 > hiCount {
				hiCount = prevCount0
			}
			for r := range pureEnds {
				for _, e := range pureEnds[r] {
					okEnd := e.Equal(ends[0]) || e.Equal(ends[1]) || (in.Mode == "mixed" && e.Equal(ends[2]))
					for _, x := range ends[3:] {
						okEnd = okEnd || e.Equal(x)
					}
					if !okEnd {
						fail("conc:endtime-torn", fmt.Sprintf("phase %d: a reader saw EndTime()=%d.%09d, which is neither the end of the previous interval nor of the current one (torn read of ResetTime)", p, e.Unix(), e.Nanosecond()))
					}
				}
				for _, n := range pureCounts[r] {
					if n < 0 || n > hiCount {
						fail("conc:count-read", fmt.Sprintf("phase %d: a reader saw Count(%q)=%d, at most %d requests were made in one interval", p, in.Addrs[0], n, hiCount))
					}
				}
			}
		}
		if in.Mode == "barrier" {
			wantEnd := tp.Add(iv)
			if p == 0 {
				wantEnd = t0.Add(iv)
			}
			for g := range reads {
				last := map[string]int{}
				for _, r := range reads[g] {
					if r.isEnd {
						if !r.end.Equal(wantEnd) {
							fail("conc:endtime", fmt.Sprintf("phase %d: EndTime()=%v read after the goroutine's own request, the interval ends at %v (stale or torn read)", p, r.end.UnixNano(), wantEnd.UnixNano()))
						}
						continue
					}
					if r.n < r.ownIncs || r.n > len(per[r.addr]) {
						fail("conc:count-read", fmt.Sprintf("phase %d: Count(%q)=%d, the reader itself had completed %d requests, %d were made in all", p, r.addr, r.n, r.ownIncs, len(per[r.addr])))
					}
					if r.n < last[r.addr] {
						fail("conc:count-read", fmt.Sprintf("phase %d: Count(%q) went from %d to %d inside one interval", p, r.addr, last[r.addr], r.n))
					}
					last[r.addr] = r.n
				}
			}
		}
		if in.Mode != "barrier" {
			break
		}
	}
	return
}

var hdrRe = regexp.MustCompile(`^(\d+) \(max (-?\d+)\)$`)
var reqCountRe = regexp.MustCompile(`^(\d+) \(max (-?\d+)\) until `)

// runConcHTTP drives the limiter through the deployed router: requests below /livesim2 pass the
// middleware (Inc with time.Now()), /reqcount reads Count and EndTime.
func runConcHTTP(in concIn) (fails []concFail) {
	fail := func(key, what string) {
		if len(fails) < 5 {
			fails = append(fails, concFail{key, what})
		}
	}
	lib.QuietLogs()
	dir, err := os.MkdirTemp("", "c20vod")
	if err != nil {
		fail("setup", err.Error())
		return
	}
	defer os.RemoveAll(dir)
	// the server refuses to start without any asset: one small bundled asset is copied
	if err := os.CopyFS(filepath.Join(dir, "testpic_2s"), os.DirFS(filepath.Join(lib.TestVodRoot, "testpic_2s"))); err != nil {
		fail("setup", err.Error())
		return
	}
	cfg := app.DefaultConfig
	cfg.VodRoot = dir
	cfg.RepDataRoot = ""
	cfg.WriteRepData = false
	cfg.TimeoutS = 0
	cfg.LogLevel = "ERROR"
	cfg.MaxRequests = int(in.Max)
	cfg.ReqLimitInt = 3600
	cfg.ReqLimitLog = ""
	cfg.WhiteListBlocks = in.WhiteList
	srv, err := app.SetupServer(context.Background(), &cfg)
	if err != nil {
		fail("setup", err.Error())
		return
	}
	type hres struct {
		addr   string
		status int
		nr, mx int
		isRead bool
		own    int
	}
	G := in.Goroutines
	res := make([][]hres, G)
	var wg sync.WaitGroup
	gate := make(chan struct{})
	for g := 0; g < G; g++ {
		wg.Add(1)
		go func(g int) {
			defer wg.Done()
			rng := rand.New(rand.NewSource(in.Seed*1000 + int64(g)))
			own := map[string]int{}
			<-gate
			for j := 0; j < in.PerPhase; j++ {
				a := in.Addrs[rng.Intn(len(in.Addrs))]
				// one address uses both mount points: /livesim2 and /vod share the quota
				url, isRead := []string{"/livesim2/none/Manifest.mpd", "/vod/testpic_2s/Manifest.mpd", "/livesim2/testpic_2s/Manifest.mpd?nowMS=100000", "/vod/none.mpd"}[rng.Intn(4)], false
				if rng.Intn(3) == 0 {
					url, isRead = "/reqcount", true
				}
				req := httptest.NewRequest("GET", url, nil)
				req.Header.Set("X-Forwarded-For", a)
				rec := httptest.NewRecorder()
				srv.Router.ServeHTTP(rec, req)
				r := hres{addr: a, status: rec.Code, isRead: isRead, nr: -1, own: own[a]}
				if isRead {
					if m := reqCountRe.FindStringSubmatch(rec.Body.String()); m != nil {
						r.nr, _ = strconv.Atoi(m[1])
						r.mx, _ = strconv.Atoi(m[2])
					}
				} else {
					own[a]++
					if m := hdrRe.FindStringSubmatch(rec.Header().Get("Livesim2-Requests")); m != nil {
						r.nr, _ = strconv.Atoi(m[1])
						r.mx, _ = strconv.Atoi(m[2])
					}
				}
				res[g] = append(res[g], r)
			}
		}(g)
	}
	close(gate)
	wg.Wait()
	per := map[string][]int{}
	for g := range res {
		last := map[string]int{}
		for _, r := range res[g] {
			if r.nr < 0 {
				fail("conc:http-header", fmt.Sprintf("response for %q (status %d, /reqcount %v) without a readable counter", r.addr, r.status, r.isRead))
				continue
			}
			if r.isRead {
				if r.nr < r.own || r.nr < last[r.addr] {
					fail("conc:count-read", fmt.Sprintf("/reqcount for %q shows %d, the client had completed %d requests and had seen %d", r.addr, r.nr, r.own, last[r.addr]))
				}
				last[r.addr] = r.nr
				continue
			}
			per[r.addr] = append(per[r.addr], r.nr)
			wl := whitelisted(in.WhiteList, r.addr)
			limited := r.status == http.StatusTooManyRequests
			if wl && limited {
				fail("conc:whitelist-limited", fmt.Sprintf("white-listed %q answered 429", r.addr))
			}
			if !wl && limited != (int64(r.nr) > in.Max) {
				fail("conc:quota", fmt.Sprintf("request %d of %q (max %d): status %d", r.nr, r.addr, in.Max, r.status))
			}
		}
	}
	for a, nrs := range per {
		sort.Ints(nrs)
		if ok, why := checkSegments(nrs, 1); !ok {
			fail("conc:lost-update", fmt.Sprintf("HTTP, %d goroutines, %d concurrent requests of %q: %s", G, len(nrs), a, why))
		} else if nrs[len(nrs)-1] != len(nrs) {
			fail("conc:lost-update", fmt.Sprintf("HTTP: %d requests of %q, highest count %d", len(nrs), a, nrs[len(nrs)-1]))
		}
	}
	return
}

func concScenarios(rng *rand.Rand, thorough bool) []concIn {
	addrs := []string{"10.0.0.1", "8.8.8.8", "2001:db8::1", "9.9.9.9"}
	per := 150
	if thorough {
		per = 1500
	}
	return []concIn{
		{Mode: "barrier", Seed: rng.Int63n(1 << 30), Goroutines: 16, Phases: 4, PerPhase: per, Max: 40, IntervalNs: 1_000_000_007, WhiteList: "10.0.0.0/8", Addrs: addrs},
		{Mode: "barrier", Seed: rng.Int63n(1 << 30), Goroutines: 16, Phases: 3, PerPhase: per, Max: 3, IntervalNs: 5, WhiteList: "", Addrs: addrs[:2]},
		// a reqlimitlog configured: all goroutines arrive at the roll-over of the interval at once
		{Mode: "barrier", Seed: rng.Int63n(1 << 30), Goroutines: 24, Phases: 8, PerPhase: per / 3, Max: 5, IntervalNs: 1_000_000_007, WhiteList: "", Addrs: addrs[:1], LogFile: true},
		{Mode: "barrier", Seed: rng.Int63n(1 << 30), Goroutines: 16, Phases: 6, PerPhase: per / 3, Max: 40, IntervalNs: 60_000_000_000, WhiteList: "10.0.0.0/8", Addrs: addrs, LogFile: true},
		{Mode: "mixed", Seed: rng.Int63n(1 << 30), Goroutines: 16, Phases: 1, PerPhase: per, Max: 25, IntervalNs: 1_000_000_000, WhiteList: "2001:db8::/32", Addrs: addrs, LogFile: true},
		{Mode: "storm", Seed: rng.Int63n(1 << 30), Goroutines: 16, Phases: 1, PerPhase: per, Max: 5, IntervalNs: -10_000_000_000, WhiteList: "", Addrs: addrs[:2]},
		{Mode: "http", Seed: rng.Int63n(1 << 30), Goroutines: 16, Phases: 1, PerPhase: per / 3, Max: 30, WhiteList: "10.0.0.0/8", Addrs: addrs},
	}
}

// ---------------------------------------------------------------- race detector child

type raceBuild struct {
	done chan struct{}
	exe  string
	err  string
	secs float64
}

func harnessDir() string {
	if exe, err := os.Executable(); err == nil {
		d := filepath.Dir(filepath.Dir(exe))
		if _, err := os.Stat(filepath.Join(d, "go.mod")); err == nil {
			return d
		}
	}
	wd, _ := os.Getwd()
	return wd
}

// startRaceBuild builds this program once more with the race detector (cgo), in the background.
func startRaceBuild(c *lib.Ctx) *raceBuild {
	rb := &raceBuild{done: make(chan struct{}), exe: filepath.Join(c.Out, "c20race")}
	go func() {
		defer close(rb.done)
		t0 := time.Now()
		ctx, cancel := context.WithTimeout(context.Background(), 600*time.Second)
		defer cancel()
		cmd := exec.CommandContext(ctx, "go", "build", "-race", "-tags", "verif", "-o", rb.exe, "./cmd/c20")
		cmd.Dir = harnessDir()
		cmd.Env = append(os.Environ(), "CGO_ENABLED=1")
		out, err := cmd.CombinedOutput()
		rb.secs = time.Since(t0).Seconds()
		if err != nil {
			rb.err = fmt.Sprintf("%v: %s", err, tail(string(out), 600))
		}
	}()
	return rb
}

func tail(s string, n int) string {
	if len(s) > n {
		return s[len(s)-n:]
	}
	return s
}

func raceChild(args []string) {
	var ins []concIn
	if err := json.Unmarshal([]byte(args[0]), &ins); err != nil {
		fmt.Fprintln(os.Stderr, "racechild:", err)
		os.Exit(3)
	}
	out := map[string][]concFail{}
	for i, in := range ins {
		out[strconv.Itoa(i)] = runConc(in)
	}
	data, _ := json.Marshal(out)
	fmt.Println("C20RESULT " + string(data))
}

var raceFrameRe = regexp.MustCompile(`^\s+(\S*Dash-Industry-Forum/livesim2/\S+?)\(\)\s*$`)

// normFunc turns "github.com/…/cmd/livesim2/app.(*IPRequestLimiter).EndTime" into
// "IPRequestLimiter.EndTime" (the naming accessgen uses); closures map to "<outer>$closure".
func normFunc(f string) string {
	if i := strings.LastIndex(f, "/"); i >= 0 {
		f = f[i+1:]
	}
	if i := strings.Index(f, "."); i >= 0 {
		f = f[i+1:] // package name
	}
	f = strings.ReplaceAll(f, "(*", "")
	f = strings.ReplaceAll(f, ")", "")
	if i := strings.Index(f, ".func"); i >= 0 {
		f = f[:i] + "$closure"
	}
	if i := strings.Index(f, "[..."); i >= 0 { // generic instantiation
		f = f[:i]
	}
	return f
}

// parseRaces extracts, per report of the race detector, the innermost livesim2 function of the
// two conflicting stacks.
func parseRaces(stderr string) [][2]string {
	var out [][2]string
	seen := map[string]bool{}
	for _, block := range strings.Split(stderr, "WARNING: DATA RACE")[1:] {
		if i := strings.Index(block, "\nGoroutine "); i >= 0 {
			block = block[:i]
		}
		var tops []string
		want := false
		for _, line := range strings.Split(block, "\n") {
			l := strings.TrimSpace(line)
			if strings.HasPrefix(l, "Read at") || strings.HasPrefix(l, "Write at") || strings.HasPrefix(l, "Previous read at") ||
				strings.HasPrefix(l, "Previous write at") || strings.HasPrefix(l, "Atomic") || strings.HasPrefix(l, "Previous atomic") {
				want = true
				continue
			}
			if want {
				if m := raceFrameRe.FindStringSubmatch(line); m != nil {
					tops = append(tops, normFunc(m[1]))
					want = false
				}
			}
		}
		if len(tops) == 2 {
			sort.Strings(tops)
			k := tops[0] + "/" + tops[1]
			if !seen[k] {
				seen[k] = true
				out = append(out, [2]string{tops[0], tops[1]})
			}
		} else {
			k := "unparsed"
			if !seen[k] {
				seen[k] = true
				out = append(out, [2]string{"?", "?"})
			}
		}
	}
	return out
}

var fatalRe = regexp.MustCompile(`(?m)^(fatal error: .*|panic: .*)$`)

// runChild runs the scenarios in a child process (this program itself, or its -race build): a Go
// runtime "fatal error: concurrent map read and map write" cannot be recovered in-process.
// Returns the racing function pairs reported by the race detector (race build only).
func runChild(c *lib.Ctx, exe string, race bool, ins []concIn, idPrefix string) (pairs [][2]string) {
	arg, _ := json.Marshal(ins)
	limit := 120 * time.Second // a blocked limiter must not hold the check up for long
	if c.Thorough() {
		limit = 600 * time.Second
	}
	ctx, cancel := context.WithTimeout(context.Background(), limit)
	defer cancel()
	cmd := exec.CommandContext(ctx, exe, "racechild", string(arg))
	cmd.Env = append(os.Environ(), "GORACE=exitcode=0 halt_on_error=0 history_size=3")
	var so, se bytes.Buffer
	cmd.Stdout, cmd.Stderr = &so, &se
	err := cmd.Run()
	res := map[string][]concFail{}
	found := false
	for _, line := range strings.Split(so.String(), "\n") {
		if strings.HasPrefix(line, "C20RESULT ") {
			found = json.Unmarshal([]byte(line[len("C20RESULT "):]), &res) == nil
		}
	}
	suffix := ""
	if race {
		suffix = " (under -race)"
	}
	if err != nil || !found {
		msg := "crash"
		if m := fatalRe.FindString(se.String()); m != "" {
			msg = m
		}
		first := ""
		for _, l := range strings.Split(se.String(), "\n") {
			if strings.Contains(l, "Dash-Industry-Forum/livesim2/") && strings.Contains(l, "(") {
				first = strings.TrimSpace(l)
				break
			}
		}
		c.Fail(idPrefix+"-crash", "conc:fatal:"+msg, fmt.Sprintf("the process died while 16 goroutines used one limiter%s: %s; first livesim2 frame: %s", suffix, msg, first),
			c20in{Kind: "conc", Race: race, Conc: &ins[0]})
		return nil
	}
	for i, in := range ins {
		in := in
		for _, f := range res[strconv.Itoa(i)] {
			c.Fail(fmt.Sprintf("%s-%d", idPrefix, i), f.Key, f.What+suffix, c20in{Kind: "conc", Conc: &in, Race: race})
		}
	}
	if !race {
		return nil
	}
	pairs = parseRaces(se.String())
	for _, p := range pairs {
		what := fmt.Sprintf("the Go race detector reports a data race between %s and %s while 16 goroutines call Inc/Count/EndTime and the HTTP router", p[0], p[1])
		blk := se.String()
		if i := strings.Index(blk, "WARNING: DATA RACE"); i >= 0 {
			blk = blk[i:]
		}
		c.Fail(idPrefix, "race:"+p[0]+"/"+p[1], what, map[string]any{"kind": "conc", "race": true, "conc": ins[0], "scenarios": ins, "first_report": tail2(blk, 1500)})
	}
	return pairs
}

// runRaceChild waits for the -race build and runs the scenarios in it.
func runRaceChild(c *lib.Ctx, rb *raceBuild, ins []concIn, idPrefix string) (pairs [][2]string, ran bool) {
	<-rb.done
	if rb.err != "" {
		c.Res.Notes = append(c.Res.Notes, "race detector not usable here (go build -race failed), concurrent part ran as stress only: "+rb.err)
		c.Count("race-detector:unavailable")
		return nil, false
	}
	pairs = runChild(c, rb.exe, true, ins, idPrefix+"-race")
	c.Count(fmt.Sprintf("race-detector:ran(build %.0fs)", rb.secs))
	return pairs, true
}

func tail2(s string, n int) string {
	if len(s) > n {
		return s[:n]
	}
	return s
}

// concurrentPart: the scenarios in-process (stress) and under the race detector; every reported
// race is also handed to Coq, which checks that race_pairs over the generated access table lists
// it (translator soundness).
func concurrentPart(c *lib.Ctx, rng *rand.Rand, rb *raceBuild, idBase int) int {
	scen := concScenarios(rng, c.Thorough())
	n := 0
	reps := 2
	if c.Thorough() {
		reps = 6
	}
	var all []concIn
	for r := 0; r < reps; r++ {
		for i := range scen {
			in := scen[i]
			in.Seed += int64(r)
			id := fmt.Sprintf("conc-%d", len(all))
			c.Res.Inputs[id] = c20in{Kind: "conc", Conc: &in}
			all = append(all, in)
			c.Count("conc:" + in.Mode)
			n++
		}
	}
	if exe, err := os.Executable(); err == nil {
		runChild(c, exe, false, all, "conc")
	} else {
		for i, in := range all {
			for _, f := range runConc(in) {
				c.Fail(fmt.Sprintf("conc-%d", i), f.Key, f.What, c20in{Kind: "conc", Conc: &in})
			}
		}
	}
	pairs, ran := runRaceChild(c, rb, scen, "conc")
	if ran {
		n += len(scen)
		var obs []string
		for i, p := range pairs {
			id := 900000 + i
			c.Res.Inputs[strconv.Itoa(id)] = map[string]any{"kind": "conc", "race": true, "conc": scen[0], "race_between": p}
			obs = append(obs, fmt.Sprintf("(%d, (%s, %s))", id, lib.CoqString(p[0]), lib.CoqString(p[1])))
		}
		content := "From Verif Require Import GoSem Conc CorrC20.\nFrom VerifGen Require Import Access.\nOpen Scope Z_scope.\n" +
			"(* data races reported by the Go race detector; M lists those that race_pairs over the generated access table does not contain *)\n" +
			"Definition M := Eval vm_compute in unlisted_races Access.IPRequestLimiter [" + strings.Join(obs, "; ") + "].\nPrint M.\n"
		c.WriteCases("cases_C20_race.v", content)
	}
	return n
}
