package main

import (
	"fmt"
	"math"
	"math/big"
	"math/rand"
	"strings"

	"verifharness/lib"
)

var v4Pool = []string{"10.0.0.1", "10.0.0.2", "10.255.255.255", "11.0.0.0", "9.255.255.255", "192.168.1.0", "192.168.1.255",
	"192.168.2.0", "192.168.0.255", "1.2.3.4", "1.2.3.5", "127.0.0.1", "8.8.8.8", "172.16.5.4", "0.0.0.0", "255.255.255.255"}
var v6Pool = []string{"::1", "::2", "2001:db8::1", "2001:DB8::1", "2001:db8:ffff:ffff:ffff:ffff:ffff:ffff", "2001:db9::", "2001:db7:ffff::1",
	"fe80::1", "febf::1", "fec0::1", "::ffff:10.0.0.1", "::ffff:1.2.3.4", "2a00:1450:4001:81b::200e"}
var oddPool = []string{"10.0.0.1, 8.8.8.8", "", "localhost", "10.0.0.1 ", "10.0.0.01", "fe80::1%eth0", "10.0.0.1:80", "unknown"}

var wlPool = []string{"", "", "10.0.0.0/8", "192.168.1.0/24", "1.2.3.4/32", "10.0.0.0/8,192.168.1.0/24", "2001:db8::/32", "::1/128",
	"fe80::/10", "10.1.2.3/8", "0.0.0.0/0", "::/0", "0.0.0.0/0,::/0", "2001:db8::/32,10.0.0.0/8,1.2.3.4/32", "127.0.0.1/32,::1/128",
	"::ffff:10.0.0.0/104"}
var badWlPool = []string{"10.0.0.0", "abc", "10.0.0.0/33", "10.0.0.0/8,", ",10.0.0.0/8", "10.0.0.0/8, 192.168.1.0/24", "2001:db8::/129", "/8"}

func allAddrs() []string {
	var a []string
	a = append(a, v4Pool...)
	a = append(a, v6Pool...)
	a = append(a, oddPool...)
	return a
}

func addrPool(rng *rand.Rand, n int) []string {
	base := allAddrs()
	var out []string
	for len(out) < n {
		if len(out) < len(base) && rng.Intn(3) > 0 {
			out = append(out, base[rng.Intn(len(base))])
		} else if rng.Intn(2) == 0 {
			out = append(out, fmt.Sprintf("%d.%d.%d.%d", rng.Intn(256), rng.Intn(256), rng.Intn(256), rng.Intn(256)))
		} else {
			out = append(out, fmt.Sprintf("2001:db8:%x::%x", rng.Intn(65536), rng.Intn(65536)))
		}
	}
	return out
}

func splitNs(v *big.Int) (sec, nsec int64) {
	q, r := new(big.Int).DivMod(v, e9, new(big.Int)) // Euclidean: 0 <= r < 1e9
	return q.Int64(), r.Int64()
}

type remoteCase struct {
	addr   string
	remote *string
}

func sp(s string) *string { return &s }

// RemoteAddr values with the client address ipFromRequest must derive from them (by construction).
var remotePool = []remoteCase{
	{"10.0.0.1:1234", sp("10.0.0.1")}, {"192.168.1.255:80", sp("192.168.1.255")}, {"8.8.8.8:65535", sp("8.8.8.8")},
	{"[::1]:8080", sp("::1")}, {"[2001:DB8::1]:443", sp("2001:db8::1")}, {"[2001:db8:0:0:0:0:0:1]:1", sp("2001:db8::1")},
	{"[::ffff:10.0.0.1]:5", sp("10.0.0.1")}, {"[fe80::1]:9", sp("fe80::1")}, {"1.2.3.4:0", sp("1.2.3.4")},
	{"10.0.0.1", nil}, {"", nil}, {"localhost:80", nil}, {"10.0.0.1:80:90", nil}, {"[::1]", nil}, {"::1:80", nil}, {"999.1.1.1:80", nil},
}

func genCases(c *lib.Ctx, rng *rand.Rand) []*c20in {
	mult := 1
	if c.Thorough() {
		mult = 10
	}
	var ins []*c20in
	intervals := []int64{1, 2, 1000, 1_000_000_000, 10_000_000_000, 3600_000_000_000}
	maxes := []int64{1, 2, 3, 5, 10}
	baseStart := int64(1_700_000_000)

	// gs follows the reset rule of the statement, only to aim calls at the current boundary
	type gstate struct{ reset *big.Int }
	step := func(g *gstate, iv int64, now *big.Int) {
		if satSub(now, g.reset).Cmp(big.NewInt(iv)) > 0 {
			g.reset = now
		}
	}
	incAt := func(now *big.Int, ip string) c20op {
		s, n := splitNs(now)
		return c20op{Kind: "inc", Sec: s, Nsec: n, IP: ip}
	}
	sprinkle := func(in *c20in, addrs []string) {
		switch rng.Intn(6) {
		case 0:
			in.Ops = append(in.Ops, c20op{Kind: "count", IP: addrs[rng.Intn(len(addrs))]})
		case 1:
			in.Ops = append(in.Ops, c20op{Kind: "end"})
		}
	}

	// 1. boundary: calls aimed at reset+interval-1ns, +0, +1ns and neighbours, adaptively
	for n := 0; n < 250*mult; n++ {
		iv := intervals[rng.Intn(len(intervals))]
		in := &c20in{Kind: "boundary", Max: maxes[rng.Intn(len(maxes))], Interval: iv, StartSec: baseStart + int64(rng.Intn(1000)),
			StartNsec: int64(rng.Intn(1_000_000_000)), WhiteList: wlPool[rng.Intn(len(wlPool))]}
		addrs := addrPool(rng, 1+rng.Intn(3))
		g := &gstate{reset: bigT(in.StartSec, in.StartNsec)}
		offs := []int64{iv - 1, iv, iv + 1, iv, iv + 1, 0, 1, -1, iv / 2, 2*iv + 1, -iv - 1, iv + 2}
		for k := 8 + rng.Intn(25); k > 0; k-- {
			now := new(big.Int).Add(g.reset, big.NewInt(offs[rng.Intn(len(offs))]))
			in.Ops = append(in.Ops, incAt(now, addrs[rng.Intn(len(addrs))]))
			step(g, iv, now)
			sprinkle(in, addrs)
		}
		ins = append(ins, in)
	}
	// the three boundary instants, exhaustively ordered, for every interval in the list
	for _, iv := range append([]int64{0, -1, -1000}, intervals...) {
		for _, seq := range [][]int64{{-1, 0, 1}, {0, 1, -1}, {1, 0, -1}, {0, 0, 1, 1}, {1, 1, 0}, {-1, -1, 1, 0, 1}} {
			in := &c20in{Kind: "boundary", Max: 2, Interval: iv, StartSec: baseStart, StartNsec: 999_999_999}
			g := &gstate{reset: bigT(in.StartSec, in.StartNsec)}
			for rep := 0; rep < 3; rep++ {
				for _, d := range seq {
					now := new(big.Int).Add(g.reset, big.NewInt(iv+d))
					in.Ops = append(in.Ops, incAt(now, "10.0.0.1"))
					step(g, iv, now)
					in.Ops = append(in.Ops, c20op{Kind: "count", IP: "10.0.0.1"}, c20op{Kind: "end"})
				}
			}
			ins = append(ins, in)
		}
	}

	// 2. random walks in time over several intervals, 1..50 addresses
	for n := 0; n < 300*mult; n++ {
		iv := intervals[rng.Intn(len(intervals))]
		if rng.Intn(10) == 0 {
			iv = []int64{0, -1, math.MaxInt64, math.MinInt64, -3600_000_000_000}[rng.Intn(5)]
		}
		mx := maxes[rng.Intn(len(maxes))]
		if rng.Intn(10) == 0 {
			mx = []int64{0, -1, -5, math.MaxInt64, math.MinInt64}[rng.Intn(5)]
		}
		in := &c20in{Kind: "random", Max: mx, Interval: iv, StartSec: baseStart + int64(rng.Intn(100000)),
			StartNsec: int64(rng.Intn(1_000_000_000)), WhiteList: wlPool[rng.Intn(len(wlPool))]}
		na := 1 + rng.Intn(5)
		if rng.Intn(4) == 0 {
			na = 1 + rng.Intn(50)
		}
		addrs := addrPool(rng, na)
		now := bigT(in.StartSec, in.StartNsec)
		scale := iv
		if scale <= 0 || scale > 1e13 {
			scale = 1_000_000_000
		}
		for k := 10 + rng.Intn(60); k > 0; k-- {
			var d int64
			switch rng.Intn(8) {
			case 0:
				d = -rng.Int63n(scale + 1) // the clock of another caller may be behind
			case 1:
				d = scale + rng.Int63n(scale+1)
			case 2:
				d = 0
			default:
				d = rng.Int63n(scale/3 + 2)
			}
			now = new(big.Int).Add(now, big.NewInt(d))
			in.Ops = append(in.Ops, incAt(now, addrs[rng.Intn(len(addrs))]))
			sprinkle(in, addrs)
		}
		ins = append(ins, in)
	}

	// 3. quota: runs past max inside one interval, over several intervals
	for n := 0; n < 80*mult; n++ {
		iv := intervals[2+rng.Intn(len(intervals)-2)]
		mx := []int64{0, 1, 2, 3, 5, 10}[rng.Intn(6)]
		in := &c20in{Kind: "quota", Max: mx, Interval: iv, StartSec: baseStart, StartNsec: int64(rng.Intn(1000)), WhiteList: wlPool[rng.Intn(len(wlPool))]}
		addrs := addrPool(rng, 1+rng.Intn(3))
		now := bigT(in.StartSec, in.StartNsec)
		for ep := 0; ep < 2+rng.Intn(3); ep++ {
			for k := int(mx) + 1 + rng.Intn(int(mx)+3); k > 0; k-- {
				now = new(big.Int).Add(now, big.NewInt(rng.Int63n(iv/100+1)))
				in.Ops = append(in.Ops, incAt(now, addrs[rng.Intn(len(addrs))]))
			}
			for _, a := range addrs {
				in.Ops = append(in.Ops, c20op{Kind: "count", IP: a})
			}
			in.Ops = append(in.Ops, c20op{Kind: "end"})
			now = new(big.Int).Add(now, big.NewInt(iv+1))
		}
		ins = append(ins, in)
	}

	// 4. extremes: instants whose distance exceeds the Duration range (time.Sub saturates)
	farStarts := []int64{0, -(1 << 40), 1 << 40, 1 << 33, -62135596800}
	farIvs := []int64{math.MaxInt64, math.MaxInt64 - 1, math.MinInt64, math.MinInt64 + 1, 0, -1, 1, 1 << 62}
	for n := 0; n < 120*mult; n++ {
		in := &c20in{Kind: "extreme", Max: maxes[rng.Intn(len(maxes))], Interval: farIvs[rng.Intn(len(farIvs))],
			StartSec: farStarts[rng.Intn(len(farStarts))], StartNsec: int64(rng.Intn(2)) * 999_999_999}
		addrs := addrPool(rng, 2)
		for k := 6 + rng.Intn(12); k > 0; k-- {
			var sec int64
			switch rng.Intn(5) {
			case 0:
				sec = farStarts[rng.Intn(len(farStarts))]
			case 1:
				sec = in.StartSec + 9223372036 + int64(rng.Intn(3)) - 1 // around start + MaxInt64 ns
			case 2:
				sec = in.StartSec - 9223372036 - int64(rng.Intn(3)) + 1
			case 3:
				sec = in.StartSec + int64(rng.Intn(10))
			default:
				sec = (rng.Int63n(1<<41) - (1 << 40))
			}
			in.Ops = append(in.Ops, c20op{Kind: "inc", Sec: sec, Nsec: []int64{0, 1, 854775807, 854775808, 999999999}[rng.Intn(5)], IP: addrs[rng.Intn(2)]})
			if rng.Intn(3) == 0 {
				in.Ops = append(in.Ops, c20op{Kind: "end"})
			}
		}
		ins = append(ins, in)
	}

	// 5. white lists: every block set against every pool address, two requests past max
	for _, wl := range wlPool {
		if wl == "" {
			continue
		}
		in := &c20in{Kind: "whitelist", Max: 1, Interval: 1_000_000_000, StartSec: baseStart, WhiteList: wl}
		for _, a := range allAddrs() {
			for k := 0; k < 3; k++ {
				in.Ops = append(in.Ops, c20op{Kind: "inc", Sec: baseStart, Nsec: int64(k), IP: a})
			}
		}
		ins = append(ins, in)
	}
	// white lists whose blocks nest / overlap / touch / repeat, in every order: membership is the
	// union of the blocks whatever the order; probe addresses in every region
	nestFamilies := []struct {
		blocks []string
		probes []string
	}{
		{[]string{"10.0.0.0/8", "10.0.0.0/16", "10.0.0.0/24", "10.0.0.0/32"},
			[]string{"10.0.0.0", "10.0.0.1", "10.0.0.255", "10.0.1.0", "10.0.255.255", "10.1.0.0", "10.9.8.7", "10.255.255.255", "11.0.0.0", "9.255.255.255"}},
		{[]string{"192.168.0.0/16", "192.168.0.0/32", "192.168.5.0/24", "192.168.4.0/23"},
			[]string{"192.168.0.0", "192.168.0.1", "192.168.5.11", "192.168.4.9", "192.168.6.0", "192.168.200.1", "192.169.0.0", "192.167.255.255"}},
		{[]string{"10.0.0.0/24", "10.0.1.0/24", "10.0.0.0/23", "10.0.0.0/24"}, // adjacent, their union, a duplicate
			[]string{"10.0.0.7", "10.0.1.7", "10.0.2.7", "9.255.255.255"}},
		{[]string{"2001:db8::/32", "2001:db8::/48", "2001:db8::/64", "2001:db8::/128"},
			[]string{"2001:db8::", "2001:db8::1", "2001:db8:0:0:1::", "2001:db8:0:1::", "2001:db8:1::", "2001:db8:ffff:ffff::1", "2001:db9::", "2001:db7:ffff::1"}},
		{[]string{"0.0.0.0/0", "127.0.0.0/8", "127.0.0.1/32"}, []string{"127.0.0.1", "127.9.9.9", "8.8.8.8", "::1"}},
		{[]string{"::/0", "fe80::/10", "::1/128", "10.0.0.0/8"}, []string{"::1", "fe80::1", "2a00::1", "10.9.8.7", "11.0.0.1", "::ffff:10.9.8.7"}},
	}
	for _, nf := range nestFamilies {
		var sets [][]string
		for i := range nf.blocks {
			for j := range nf.blocks {
				if i != j {
					sets = append(sets, []string{nf.blocks[i], nf.blocks[j]})
				}
			}
		}
		for k := 0; k < 6; k++ {
			perm := rng.Perm(len(nf.blocks))
			n := 3 + rng.Intn(len(nf.blocks)-2)
			var set []string
			for _, pi := range perm[:n] {
				set = append(set, nf.blocks[pi])
			}
			sets = append(sets, set)
		}
		for _, set := range sets {
			in := &c20in{Kind: "whitelist-nested", Max: 1, Interval: 1_000_000_000, StartSec: baseStart, WhiteList: strings.Join(set, ",")}
			for _, a := range nf.probes {
				for k := 0; k < 3; k++ {
					in.Ops = append(in.Ops, c20op{Kind: "inc", Sec: baseStart, Nsec: int64(k), IP: a})
				}
			}
			ins = append(ins, in)
		}
	}
	for _, wl := range badWlPool {
		ins = append(ins, &c20in{Kind: "bad-cidr", Max: 1, Interval: 1, StartSec: baseStart, WhiteList: wl})
	}

	// 6. middleware: RemoteAddr / X-Forwarded-For variants; the interval never or always elapses,
	//    so the outcome does not depend on the middleware's own time.Now()
	hdrNames := []string{"Livesim2-Requests", "Livesim2-Requests", "X-Req", ""}
	for n := 0; n < 120*mult; n++ {
		kind, iv := "mw-never", int64(math.MaxInt64)
		if n%3 == 2 {
			kind, iv = "mw-always", -(1 << 62)
		}
		in := &c20in{Kind: kind, Max: maxes[rng.Intn(3)], Interval: iv, StartSec: baseStart, StartNsec: 5, WhiteList: wlPool[rng.Intn(len(wlPool))]}
		hn := hdrNames[rng.Intn(len(hdrNames))]
		xffs := addrPool(rng, 2)
		for k := 8 + rng.Intn(20); k > 0; k-- {
			rc := remotePool[rng.Intn(len(remotePool))]
			if rng.Intn(3) > 0 {
				rc = remotePool[rng.Intn(4)]
			}
			op := c20op{Kind: "mw", HdrName: hn, RemoteAddr: rc.addr, Remote: rc.remote}
			if rng.Intn(3) == 0 {
				op.XFF = xffs[rng.Intn(2)]
				if !asciiOnly(op.XFF) {
					op.XFF = ""
				}
			}
			in.Ops = append(in.Ops, op)
			if kind == "mw-never" && rng.Intn(4) == 0 {
				in.Ops = append(in.Ops, c20op{Kind: "inc", Sec: baseStart + int64(rng.Intn(100000)), IP: []string{"10.0.0.1", "::1", "8.8.8.8"}[rng.Intn(3)]})
			}
			if rng.Intn(4) == 0 {
				in.Ops = append(in.Ops, c20op{Kind: "count", IP: []string{"10.0.0.1", "::1", "2001:db8::1", "8.8.8.8"}[rng.Intn(4)]})
			}
			if kind == "mw-never" && rng.Intn(6) == 0 {
				in.Ops = append(in.Ops, c20op{Kind: "end"})
			}
		}
		ins = append(ins, in)
	}
	// real clock: requests inside one interval, a pause longer than the interval, again
	nrt := 3
	if c.Thorough() {
		nrt = 12
	}
	for n := 0; n < nrt; n++ {
		in := &c20in{Kind: "mw-realtime", Max: 2, Interval: 200_000_000}
		mk := func() c20op {
			return c20op{Kind: "mw", HdrName: "Livesim2-Requests", RemoteAddr: "10.0.0.1:1", Remote: sp("10.0.0.1")}
		}
		for ep := 0; ep < 3; ep++ {
			for k := 0; k < 2+n%3; k++ {
				in.Ops = append(in.Ops, mk())
			}
			in.Ops = append(in.Ops, c20op{Kind: "count", IP: "10.0.0.1"}, c20op{Kind: "sleep", SleepMs: 320})
		}
		ins = append(ins, in)
	}
	// reqlimitlog configured: the dump at every interval end must not influence the limiter, whether
	// the file can be written or not (directory removed in the middle of the sequence, or never there)
	for i, in := range ins {
		if (in.Kind == "boundary" || in.Kind == "random" || in.Kind == "quota") && i%3 == 0 && len(in.Ops) > 4 {
			if rng.Intn(2) == 0 {
				in.LogMode = "fault"
			} else {
				in.LogMode = "ok"
				k := 1 + rng.Intn(len(in.Ops)-2)
				ops := append([]c20op{}, in.Ops[:k]...)
				ops = append(ops, c20op{Kind: "logfault"})
				ops = append(ops, in.Ops[k:]...)
				if rng.Intn(3) == 0 {
					j := k + 1 + rng.Intn(len(ops)-k-1)
					ops = append(ops[:j], append([]c20op{{Kind: "logrestore"}}, ops[j:]...)...)
				}
				in.Ops = ops
			}
		}
	}

	// 7. the limiter as app.SetupServer wires it: one limiter for /livesim2 and /vod, /reqcount reads it
	paths := []string{"/livesim2/testpic_2s/Manifest.mpd?nowMS=100000", "/vod/testpic_2s/Manifest.mpd", "/livesim2/none/Manifest.mpd?nowMS=100000",
		"/vod/none.mpd", "/livesim2/testpic_2s/V300/init.mp4", "/vod/testpic_2s/V300/init.mp4"}
	for n := 0; n < 24*mult; n++ {
		in := &c20in{Kind: "server", ViaServer: true, ServerIntS: 3600, Max: int64(1 + rng.Intn(5)), WhiteList: wlPool[rng.Intn(len(wlPool))],
			LogMode: []string{"", "ok", "fault"}[rng.Intn(3)]}
		xffs := addrPool(rng, 1+rng.Intn(3))
		for k := 10 + rng.Intn(25); k > 0; k-- {
			rc := remotePool[rng.Intn(4)]
			if rng.Intn(8) == 0 {
				rc = remotePool[rng.Intn(len(remotePool))]
			}
			op := c20op{Kind: "mw", HdrName: "Livesim2-Requests", RemoteAddr: rc.addr, Remote: rc.remote, Path: paths[rng.Intn(len(paths))]}
			if rng.Intn(2) == 0 {
				if x := xffs[rng.Intn(len(xffs))]; asciiOnly(x) {
					op.XFF = x
				}
			}
			in.Ops = append(in.Ops, op)
			if rng.Intn(4) == 0 {
				ip := "10.0.0.1"
				if op.XFF != "" {
					ip = op.XFF
				} else if op.Remote != nil {
					ip = *op.Remote
				}
				in.Ops = append(in.Ops, c20op{Kind: "count", IP: ip})
			}
		}
		ins = append(ins, in)
	}
	// the same with a one-second interval on the real clock, log file unwritable / removed on the way
	nsrt := 2
	if c.Thorough() {
		nsrt = 8
	}
	for n := 0; n < nsrt; n++ {
		in := &c20in{Kind: "server-realtime", ViaServer: true, ServerIntS: 1, Max: 2, LogMode: []string{"fault", "ok"}[n%2]}
		mk := func(k int) c20op {
			return c20op{Kind: "mw", HdrName: "Livesim2-Requests", RemoteAddr: "10.0.0.1:1", Remote: sp("10.0.0.1"), Path: paths[(n+k)%2]}
		}
		for ep := 0; ep < 3; ep++ {
			for k := 0; k < 3+n%2; k++ {
				in.Ops = append(in.Ops, mk(k))
			}
			in.Ops = append(in.Ops, c20op{Kind: "count", IP: "10.0.0.1"})
			if ep == 0 && in.LogMode == "ok" {
				in.Ops = append(in.Ops, c20op{Kind: "logfault"})
			}
			if ep < 2 {
				in.Ops = append(in.Ops, c20op{Kind: "sleep", SleepMs: 1400})
			}
		}
		ins = append(ins, in)
	}
	return ins
}
