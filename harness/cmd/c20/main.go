// c20: correspondence harness and oracle for property C20 (the request limiter enforces its quota
// exactly, also under concurrency). Public API only: app.NewIPRequestLimiter, Inc, Count, EndTime,
// NewLimiterMiddleware and (in the concurrent part) app.SetupServer's router.
package main

import (
	"context"
	"encoding/json"
	"fmt"
	"math"
	"math/big"
	"math/rand"
	"net/http"
	"net/http/httptest"
	"os"
	"path/filepath"
	"regexp"
	"sort"
	"strconv"
	"strings"
	"sync"
	"time"

	"github.com/Dash-Industry-Forum/livesim2/cmd/livesim2/app"
	"verifharness/lib"
)

func main() {
	if len(os.Args) > 1 && os.Args[1] == "racechild" {
		raceChild(os.Args[2:])
		return
	}
	lib.Main("C20", runC20)
}

// ---------------------------------------------------------------- inputs and observations

type c20op struct {
	Kind       string  `json:"kind"` // inc | count | end | mw | sleep
	Sec        int64   `json:"sec,omitempty"`
	Nsec       int64   `json:"nsec,omitempty"`
	IP         string  `json:"ip,omitempty"`
	HdrName    string  `json:"hdr_name,omitempty"`
	XFF        string  `json:"xff,omitempty"`
	RemoteAddr string  `json:"remote_addr,omitempty"`
	Remote     *string `json:"remote,omitempty"` // what ipFromRequest yields for RemoteAddr by construction (nil: error)
	SleepMs    int     `json:"sleep_ms,omitempty"`
	Path       string  `json:"path,omitempty"` // via_server: request path (/livesim2/…, /vod/…)
}

type c20in struct {
	Kind      string  `json:"kind"`
	Max       int64   `json:"max"`
	Interval  int64   `json:"interval_ns"`
	StartSec  int64   `json:"start_sec"`
	StartNsec int64   `json:"start_nsec"`
	WhiteList string  `json:"white_list"`
	Ops       []c20op `json:"ops,omitempty"`
	// LogMode: "" no reqlimitlog; "ok" log file in an existing directory; "fault" the directory does
	// not exist (every dump fails). Ops "logfault"/"logrestore" remove / recreate the directory.
	LogMode string `json:"log_mode,omitempty"`
	// ViaServer: the limiter is the one app.SetupServer wires into the router (maxrequests,
	// reqlimitint seconds, whitelistblocks, reqlimitlog); "mw" ops are requests to Path through
	// Server.Router, "count" ops are GET /reqcount.
	ViaServer     bool  `json:"via_server,omitempty"`
	ServerIntS    int   `json:"server_interval_s,omitempty"`
	StartAfterSec int64 `json:"start_after_sec,omitempty"` // SetupServer returned at this instant (start_*: it was called)
	StartAfterNs  int64 `json:"start_after_nsec,omitempty"`
	scratch       string
	Bulk          *bulkIn  `json:"bulk,omitempty"`
	Conc          *concIn  `json:"conc,omitempty"`
	Race          bool     `json:"race,omitempty"` // replay: run the concurrent scenarios in the -race child
	Scenarios     []concIn `json:"scenarios,omitempty"`
}

type c20obs struct {
	Nr, Mx  int64
	Ok      bool
	N       int64
	End     *big.Int
	Cls     int
	Hdr     *string
	Before  *big.Int // real-time middleware call: wall clock just before / after the call
	After   *big.Int
	Skipped bool
}

var e9 = big.NewInt(1000000000)

func bigT(sec, nsec int64) *big.Int {
	v := new(big.Int).Mul(big.NewInt(sec), e9)
	return v.Add(v, big.NewInt(nsec))
}

func bigOfTime(t time.Time) *big.Int { return bigT(t.Unix(), int64(t.Nanosecond())) }

func zbig(v *big.Int) string {
	if v.Sign() < 0 {
		return "(" + v.String() + ")"
	}
	return v.String()
}

// satSub is time.Time.Sub: the difference saturated to the int64 Duration range.
func satSub(a, b *big.Int) *big.Int {
	d := new(big.Int).Sub(a, b)
	if d.Cmp(big.NewInt(math.MaxInt64)) > 0 {
		return big.NewInt(math.MaxInt64)
	}
	if d.Cmp(big.NewInt(math.MinInt64)) < 0 {
		return big.NewInt(math.MinInt64)
	}
	return d
}

const badIPBody = "could not read client IP"

func isRealtime(in *c20in) bool { return in.Kind == "mw-realtime" || in.Kind == "server-realtime" }

var serverVodOnce sync.Once
var serverVodRoot string
var serverVodErr error

// serverVod: a vodroot with one small bundled asset (the server refuses to start without any).
func serverVod() (string, error) {
	serverVodOnce.Do(func() {
		serverVodRoot, serverVodErr = os.MkdirTemp("", "c20vod")
		if serverVodErr == nil {
			serverVodErr = os.CopyFS(filepath.Join(serverVodRoot, "testpic_2s"), os.DirFS(filepath.Join(lib.TestVodRoot, "testpic_2s")))
		}
	})
	return serverVodRoot, serverVodErr
}

var reqCountBodyRe = regexp.MustCompile(`^(-?\d+) \(max (-?\d+)\) until `)

// runCase drives one limiter through the calls of a case.
var errHang = fmt.Errorf("hang: the calls did not return")

// runCase runs the calls of a case under a watchdog (a limiter that blocks - e.g. takes its own mutex
// twice - must become a finding with a replay, not a harness that never ends).
func runCase(in *c20in) ([]c20obs, error) {
	type res struct {
		obs []c20obs
		err error
	}
	ch := make(chan res, 1)
	go func() {
		o, err := runCaseUnguarded(in)
		ch <- res{o, err}
	}()
	limit := 10 * time.Second
	if isRealtime(in) {
		limit = 60 * time.Second
	}
	select {
	case r := <-ch:
		return r.obs, r.err
	case <-time.After(limit):
		return nil, errHang
	}
}

func runCaseUnguarded(in *c20in) ([]c20obs, error) {
	if pre, ok := precomputed[in]; ok {
		return pre, nil
	}
	start := time.Unix(in.StartSec, in.StartNsec)
	if in.Kind == "mw-realtime" {
		start = time.Now()
		in.StartSec, in.StartNsec = start.Unix(), int64(start.Nanosecond())
	}
	logFile, logDir := "", ""
	if in.LogMode != "" {
		if in.scratch == "" {
			d, err := os.MkdirTemp("", "c20log")
			if err != nil {
				return nil, err
			}
			defer os.RemoveAll(d)
			in.scratch = d
		}
		logDir = filepath.Join(in.scratch, "log")
		logFile = filepath.Join(logDir, "reqlimit.json")
		if in.LogMode == "ok" {
			if err := os.MkdirAll(logDir, 0o755); err != nil {
				return nil, err
			}
		}
	}
	var il *app.IPRequestLimiter
	var srv *app.Server
	if in.ViaServer {
		root, err := serverVod()
		if err != nil {
			return nil, err
		}
		cfg := app.DefaultConfig
		cfg.VodRoot, cfg.RepDataRoot, cfg.WriteRepData, cfg.TimeoutS, cfg.LogLevel = root, "", false, 0, "ERROR"
		cfg.MaxRequests, cfg.ReqLimitInt, cfg.ReqLimitLog, cfg.WhiteListBlocks = int(in.Max), in.ServerIntS, logFile, in.WhiteList
		before := time.Now()
		srv, err = app.SetupServer(context.Background(), &cfg)
		after := time.Now()
		if err != nil {
			return nil, err
		}
		in.Interval = int64(in.ServerIntS) * 1_000_000_000
		in.StartSec, in.StartNsec = before.Unix(), int64(before.Nanosecond())
		in.StartAfterSec, in.StartAfterNs = after.Unix(), int64(after.Nanosecond())
	} else {
		var err error
		il, err = app.NewIPRequestLimiter(int(in.Max), time.Duration(in.Interval), start, in.WhiteList, logFile)
		if err != nil {
			return nil, err
		}
	}
	mws := map[string]http.Handler{}
	called := false
	next := http.HandlerFunc(func(w http.ResponseWriter, r *http.Request) {
		called = true
		w.WriteHeader(http.StatusNoContent)
	})
	obs := make([]c20obs, len(in.Ops))
	for i, op := range in.Ops {
		switch op.Kind {
		case "inc":
			nr, mx, ok := il.Inc(time.Unix(op.Sec, op.Nsec), op.IP)
			obs[i] = c20obs{Nr: int64(nr), Mx: int64(mx), Ok: ok}
		case "logfault":
			_ = os.RemoveAll(logDir)
			obs[i] = c20obs{Skipped: true}
		case "logrestore":
			_ = os.MkdirAll(logDir, 0o755)
			obs[i] = c20obs{Skipped: true}
		case "count":
			if in.ViaServer {
				req := httptest.NewRequest("GET", "/reqcount", nil)
				req.Header.Set("X-Forwarded-For", op.IP)
				rec := httptest.NewRecorder()
				srv.Router.ServeHTTP(rec, req)
				n := int64(-1)
				if m := reqCountBodyRe.FindStringSubmatch(rec.Body.String()); m != nil {
					n, _ = strconv.ParseInt(m[1], 10, 64)
				}
				obs[i] = c20obs{N: n}
				continue
			}
			obs[i] = c20obs{N: int64(il.Count(op.IP))}
		case "end":
			obs[i] = c20obs{End: bigOfTime(il.EndTime())}
		case "sleep":
			time.Sleep(time.Duration(op.SleepMs) * time.Millisecond)
			obs[i] = c20obs{Skipped: true}
		case "mw":
			var h http.Handler
			path := "/x"
			if in.ViaServer {
				h, path = srv.Router, op.Path
			} else {
				var ok bool
				h, ok = mws[op.HdrName]
				if !ok {
					h = app.NewLimiterMiddleware(op.HdrName, il)(next)
					mws[op.HdrName] = h
				}
			}
			req := httptest.NewRequest("GET", path, nil)
			req.RemoteAddr = op.RemoteAddr
			if op.XFF != "" {
				req.Header.Set("X-Forwarded-For", op.XFF)
			}
			rec := httptest.NewRecorder()
			called = false
			before := time.Now()
			h.ServeHTTP(rec, req)
			after := time.Now()
			o := c20obs{Before: bigOfTime(before), After: bigOfTime(after)}
			switch {
			case called:
				o.Cls = 2
			case rec.Code == http.StatusTooManyRequests:
				o.Cls = 1
			case rec.Body.String() == badIPBody:
				o.Cls = 0
			case in.ViaServer:
				o.Cls = 2 // passed on to the router's handler (whatever that answers)
			default:
				o.Cls = 9
			}
			if op.HdrName != "" {
				if vs := rec.Header().Values(op.HdrName); len(vs) > 0 {
					v := strings.Join(vs, "|")
					o.Hdr = &v
				}
			}
			obs[i] = o
		}
	}
	return obs, nil
}

// ---------------------------------------------------------------- the property, evaluated directly

// spec is the statement of C20 as a reference: epochs are cut where now - resetTime > interval,
// inside an epoch the k-th call of an address gets k, passes iff k <= max or white-listed.
type spec struct {
	in      *c20in
	reset   *big.Int
	counts  map[string]int64
	resets  int
	rejects int
}

func newSpec(in *c20in) *spec {
	return &spec{in: in, reset: bigT(in.StartSec, in.StartNsec), counts: map[string]int64{}}
}

func (s *spec) wouldReset(now *big.Int) bool {
	return satSub(now, s.reset).Cmp(big.NewInt(s.in.Interval)) > 0
}

func (s *spec) inc(now *big.Int, ip string) (k, mx int64, ok, reset bool) {
	if s.wouldReset(now) {
		s.counts = map[string]int64{}
		s.reset = now
		s.resets++
		reset = true
	}
	s.counts[ip]++
	k = s.counts[ip]
	wl := whitelisted(s.in.WhiteList, ip)
	mx = s.in.Max
	if wl {
		mx = -1
	}
	ok = wl || k <= s.in.Max
	if !ok {
		s.rejects++
	}
	return
}

// modelNow is the instant handed to the model/spec for an op (for the middleware the real instant
// is time.Now(); the case kinds are built so that the reset decision does not depend on it).
func modelNow(in *c20in, op c20op, o c20obs) *big.Int {
	if op.Kind == "mw" {
		if isRealtime(in) {
			return o.Before
		}
		return bigT(in.StartSec, in.StartNsec)
	}
	return bigT(op.Sec, op.Nsec)
}

// realtimeUnambiguous: for a real-time middleware case, the reset decision of every call must be
// the same for every instant between "before" and "after" the call (otherwise the case is dropped).
func realtimeUnambiguous(in *c20in, obs []c20obs) bool {
	rb, ra := bigT(in.StartSec, in.StartNsec), bigT(in.StartSec, in.StartNsec)
	if in.ViaServer {
		ra = bigT(in.StartAfterSec, in.StartAfterNs) // the limiter's start lies between call and return of SetupServer
	}
	iv := big.NewInt(in.Interval)
	for i, op := range in.Ops {
		if op.Kind != "mw" {
			continue
		}
		o := obs[i]
		if op.XFF == "" && op.Remote == nil {
			continue // no Inc
		}
		defReset := new(big.Int).Sub(o.Before, ra).Cmp(iv) > 0
		defKeep := new(big.Int).Sub(o.After, rb).Cmp(iv) <= 0
		switch {
		case defReset:
			rb, ra = o.Before, o.After
		case defKeep:
		default:
			return false
		}
	}
	return true
}

// oracle evaluates the property text on the observed results of one case.
func oracle(c *lib.Ctx, id string, in *c20in, obs []c20obs) (resets, rejects int) {
	s := newSpec(in)
	for i, op := range in.Ops {
		o := obs[i]
		where := fmt.Sprintf("call %d (%s)", i, op.Kind)
		switch op.Kind {
		case "inc", "mw":
			ip := op.IP
			if op.Kind == "mw" {
				if op.XFF != "" {
					ip = op.XFF
				} else if op.Remote != nil {
					ip = *op.Remote
				} else {
					if o.Cls != 0 {
						c.Fail(id, "badip", fmt.Sprintf("%s: request without a readable client address was not refused (class %d)", where, o.Cls), in)
						return s.resets, s.rejects
					}
					continue
				}
			}
			k, mx, ok, didReset := s.inc(modelNow(in, op, o), ip)
			nr, omx, ook := o.Nr, o.Mx, o.Ok
			if op.Kind == "mw" {
				// the middleware shows Inc's result as status + header "k (max M)"
				if o.Cls != 1 && o.Cls != 2 {
					c.Fail(id, "status", fmt.Sprintf("%s: neither passed on nor 429 (class %d)", where, o.Cls), in)
					return s.resets, s.rejects
				}
				ook = o.Cls == 2
				if op.HdrName != "" {
					want := fmt.Sprintf("%d (max %d)", k, mx)
					if o.Hdr == nil || *o.Hdr != want {
						got := "<none>"
						if o.Hdr != nil {
							got = *o.Hdr
						}
						key := "header"
						if o.Hdr != nil && didReset && !strings.HasPrefix(*o.Hdr, "1 ") {
							key = "reset-missed"
						} else if o.Hdr != nil && !didReset && k > 1 && strings.HasPrefix(*o.Hdr, "1 ") {
							key = "reset-early"
						}
						c.Fail(id, key, fmt.Sprintf("%s: header %q, the %d. request of %q in its interval must carry %q", where, got, k, ip, want), in)
						return s.resets, s.rejects
					}
				} else if o.Hdr != nil {
					c.Fail(id, "header", fmt.Sprintf("%s: header set although no header name was configured", where), in)
					return s.resets, s.rejects
				}
				nr, omx = k, mx
			}
			if nr != k {
				key := "count-sequence"
				if didReset && nr != 1 {
					key = "reset-missed"
				} else if !didReset && k > 1 && nr == 1 {
					key = "reset-early"
				}
				c.Fail(id, key, fmt.Sprintf("%s: %q got count %d, it is its %d. request in the interval that began at %s (interval %d ns)", where, ip, nr, k, s.reset, in.Interval), in)
				return s.resets, s.rejects
			}
			wl := whitelisted(in.WhiteList, ip)
			if wl && !ook {
				c.Fail(id, "whitelist-limited", fmt.Sprintf("%s: white-listed address %q was limited (count %d, max %d)", where, ip, nr, in.Max), in)
				return s.resets, s.rejects
			}
			if ook != ok {
				c.Fail(id, "quota", fmt.Sprintf("%s: request %d of %q (max %d, white-listed %v): passed=%v, must be %v", where, k, ip, in.Max, wl, ook, ok), in)
				return s.resets, s.rejects
			}
			if omx != mx {
				c.Fail(id, "max-reported", fmt.Sprintf("%s: reported max %d for %q, must be %d", where, omx, ip, mx), in)
				return s.resets, s.rejects
			}
		case "count":
			if o.N != s.counts[op.IP] {
				c.Fail(id, "count-read", fmt.Sprintf("%s: Count(%q)=%d, %d requests were made in the current interval", where, op.IP, o.N, s.counts[op.IP]), in)
				return s.resets, s.rejects
			}
		case "end":
			want := new(big.Int).Add(s.reset, big.NewInt(in.Interval))
			if in.Kind != "mw-always" && !isRealtime(in) && o.End.Cmp(want) != 0 {
				c.Fail(id, "endtime", fmt.Sprintf("%s: EndTime()=%s ns, interval began at %s and lasts %d ns", where, o.End, s.reset, in.Interval), in)
				return s.resets, s.rejects
			}
		}
	}
	return s.resets, s.rejects
}

// ---------------------------------------------------------------- Coq terms

// interner gives every distinct string of a cases file a name (a Coq string literal is costly to
// parse and type-check, the same address occurs thousands of times).
type interner struct {
	names map[string]string
	defs  []string
}

func newInterner() *interner { return &interner{names: map[string]string{}} }

func (n *interner) str(s string) string {
	if v, ok := n.names[s]; ok {
		return v
	}
	v := fmt.Sprintf("s%d", len(n.names))
	n.names[s] = v
	n.defs = append(n.defs, fmt.Sprintf("Definition %s : string := %s.", v, lib.CoqString(s)))
	return v
}

func (n *interner) opt(s *string) string {
	if s == nil {
		return "None"
	}
	return "(Some " + n.str(*s) + ")"
}

func caseTerm(nm *interner, id int, in *c20in, obs []c20obs) string {
	ips := map[string]bool{}
	var ops []string
	for i, op := range in.Ops {
		o := obs[i]
		switch op.Kind {
		case "inc":
			ips[op.IP] = true
			ops = append(ops, fmt.Sprintf("CInc %s %s %s %s %s", zbig(bigT(op.Sec, op.Nsec)), nm.str(op.IP), lib.Zs(o.Nr), lib.Zs(o.Mx), lib.Cbool(o.Ok)))
		case "count":
			ips[op.IP] = true
			ops = append(ops, fmt.Sprintf("CCount %s %s", nm.str(op.IP), lib.Zs(o.N)))
		case "end":
			if in.Kind == "mw-always" || isRealtime(in) {
				continue // the reset instant is the middleware's own time.Now()
			}
			ops = append(ops, fmt.Sprintf("CEnd %s", zbig(o.End)))
		case "mw":
			if op.XFF != "" {
				ips[op.XFF] = true
			} else if op.Remote != nil {
				ips[*op.Remote] = true
			}
			ops = append(ops, fmt.Sprintf("CMw %s %s %s %s %d %s", zbig(modelNow(in, op, o)), nm.str(op.HdrName),
				nm.str(op.XFF), nm.opt(op.Remote), o.Cls, nm.opt(o.Hdr)))
		}
	}
	var keys []string
	for k := range ips {
		keys = append(keys, k)
	}
	sort.Strings(keys)
	var wl []string
	for _, k := range keys {
		if whitelisted(in.WhiteList, k) {
			wl = append(wl, fmt.Sprintf("(%s, true)", nm.str(k)))
		}
	}
	return fmt.Sprintf("{| c_id := %d; c_max := %s; c_interval := %s; c_start := %s; c_wl := [%s];\n   c_ops := [%s] |}",
		id, lib.Zs(in.Max), lib.Zs(in.Interval), zbig(bigT(in.StartSec, in.StartNsec)), strings.Join(wl, "; "), strings.Join(ops, ";\n     "))
}

func asciiOnly(s string) bool {
	for _, r := range s {
		if r < 32 || r > 126 {
			return false
		}
	}
	return true
}

// ---------------------------------------------------------------- run

func runC20(c *lib.Ctx) error {
	lib.QuietLogs()
	if c.Replay != "" {
		return replayC20(c)
	}
	// the -race child is built while the sequential part runs
	rb := startRaceBuild(c)

	rng := rand.New(rand.NewSource(c.Seed))
	ins := genCases(c, rng)
	// very many addresses in one interval; a sample of the returning ones goes to the Coq model
	bulk := bulkIn{Seed: c.Seed + 3, Addresses: 260_000, Returners: 3000, Max: 3}
	if c.Thorough() {
		bulk = bulkIn{Seed: c.Seed + 3, Addresses: 1_300_000, Returners: 20000, Max: 3}
	}
	bulkFails, bulkProj, bulkCalls := runBulk(c, bulk)
	for _, f := range bulkFails {
		c.Fail(f.Case, f.Key, f.What, f.Input)
	}
	c.Count(fmt.Sprintf("bulk:%d-addresses-in-one-interval", bulk.Addresses))
	ins = append(ins, bulkProj...)

	// real-time middleware cases sleep: run them side by side
	obsAll := make([][]c20obs, len(ins))
	errs := make([]error, len(ins))
	var wg sync.WaitGroup
	for i := range ins {
		ins[i].scratch = filepath.Join(c.Out, "c20logs", fmt.Sprint(i))
		if isRealtime(ins[i]) {
			wg.Add(1)
			go func(i int) {
				defer wg.Done()
				obsAll[i], errs[i] = runCase(ins[i])
			}(i)
		}
	}
	hangs, reportedHangs := 0, 0
	for i := range ins {
		if !isRealtime(ins[i]) {
			if hangs >= 3 {
				errs[i] = errHang // every hang leaves a blocked goroutine behind; three replays are enough
				continue
			}
			obsAll[i], errs[i] = runCase(ins[i])
			if errs[i] == errHang {
				hangs++
			}
		}
	}
	wg.Wait()

	type caseRef struct {
		i int
	}
	var keep []caseRef
	distinct := map[string]bool{}
	nOps := 0
	for i, in := range ins {
		id := fmt.Sprintf("%d", i)
		okCIDR := cidrOK(in.WhiteList)
		if errs[i] == errHang {
			if obsAll[i] == nil && hangs <= 3 {
				hangs++ // report the first ones only
			}
			if reportedHangs < 3 {
				reportedHangs++
				c.Fail(id, "hang", fmt.Sprintf("the calls of this sequence did not return within 10 s (limiter kind %s, reqlimitlog %q, via SetupServer %v): a call blocks for ever", in.Kind, in.LogMode, in.ViaServer), in)
			}
			c.Count("hang-or-skipped-after-hangs")
			c.Res.Inputs[id] = in
			continue
		}
		if errs[i] != nil {
			if okCIDR {
				c.Fail(id, "constructor", fmt.Sprintf("NewIPRequestLimiter refused the block list %q: %v", in.WhiteList, errs[i]), in)
			}
			c.Count("cidr-rejected")
			c.Res.Inputs[id] = in
			continue
		}
		if !okCIDR {
			c.Fail(id, "constructor", fmt.Sprintf("NewIPRequestLimiter accepted the malformed block list %q", in.WhiteList), in)
			continue
		}
		if isRealtime(in) && !realtimeUnambiguous(in, obsAll[i]) {
			c.Count("realtime-dropped-ambiguous-timing")
			continue
		}
		c.Res.Inputs[id] = in
		c.Count("case:" + in.Kind)
		if in.LogMode != "" {
			c.Count("reqlimitlog:" + in.LogMode)
		}
		for _, op := range in.Ops {
			if op.Kind != "sleep" && op.Kind != "logfault" && op.Kind != "logrestore" {
				c.Count("call:" + op.Kind)
				nOps++
			}
		}
		resets, rejects := oracle(c, id, in, obsAll[i])
		c.Count(fmt.Sprintf("resets-per-case:%s", bucket(resets)))
		if resets > 0 || rejects > 0 {
			b, _ := json.Marshal(in)
			distinct[string(b)] = true
		}
		keep = append(keep, caseRef{i})
	}
	// shards of about the same number of calls
	shardCalls := 1500
	for s, lo := 0, 0; lo < len(keep); s++ {
		nm := newInterner()
		var terms []string
		calls := 0
		for lo < len(keep) && (calls < shardCalls || len(terms) == 0) {
			i := keep[lo].i
			terms = append(terms, caseTerm(nm, i, ins[i], obsAll[i]))
			calls += len(ins[i].Ops)
			lo++
		}
		c.WriteCases(fmt.Sprintf("cases_C20_%d.v", s),
			lib.CasesFile("From Verif Require Import GoSem Limiter CorrC20.", "c20case", strings.Join(nm.defs, "\n")+"\n", terms, "model_view"))
	}
	c.Res.ModelCases = len(keep)

	// concurrent part: in-process stress, then the same under the race detector
	nConc := concurrentPart(c, rng, rb, len(ins))

	c.Res.Evaluations = len(ins) + nConc + bulkCalls
	c.Res.DistinctNontrivial = len(distinct)
	c.Res.Rule = fmt.Sprintf("call sequences on one limiter (%d calls in %d sequences): adaptive boundary sequences (calls at reset+interval-1ns/+0/+1ns and other offsets), random walks in time over several intervals with 1-50 addresses, quota runs past max, saturating time differences and extreme intervals/max, CIDR block sets with edge addresses (IPv4, IPv6, v4-mapped, forwarded-for lists), the middleware with RemoteAddr/X-Forwarded-For variants (never-reset, always-reset and real-time intervals); plus concurrent scenarios (16 goroutines; barrier phases, two instants without barrier, HTTP through SetupServer's router incl. /reqcount) in-process and under the Go race detector. distinct = distinct (configuration, call sequence); non-trivial = at least one interval reset or one rejected request", nOps, len(keep))
	for i := 0; i < 3 && i < len(ins); i++ {
		j := (i*97 + 5) % len(ins)
		c.Sample(map[string]any{"input": ins[j], "calls": len(ins[j].Ops)})
	}
	return nil
}

func bucket(n int) string {
	switch {
	case n == 0:
		return "0"
	case n <= 2:
		return "1-2"
	case n <= 5:
		return "3-5"
	default:
		return "6+"
	}
}

func replayC20(c *lib.Ctx) error {
	in, err := lib.LoadReplayInput[c20in](c.Replay)
	if err != nil {
		return err
	}
	if in.Bulk != nil {
		fails, _, _ := runBulk(c, *in.Bulk)
		for _, f := range fails {
			c.Fail("replay", f.Key, f.What, f.Input)
			fmt.Printf("replay C20: %s: %s\n", f.Key, f.What)
		}
		return nil
	}
	if in.Conc != nil {
		if in.Race {
			rb := startRaceBuild(c)
			scen := []concIn{*in.Conc}
			if len(in.Scenarios) > 0 {
				scen = in.Scenarios
			}
			runRaceChild(c, rb, scen, "replay")
			for _, f := range c.Res.OracleFailures {
				fmt.Printf("replay C20: %s: %s\n", f.Key, f.What)
			}
			return nil
		}
		if exe, err := os.Executable(); err == nil {
			runChild(c, exe, false, []concIn{*in.Conc}, "replay")
		}
		for _, f := range c.Res.OracleFailures {
			fmt.Printf("replay C20: %s: %s\n", f.Key, f.What)
		}
		return nil
	}
	obs, err := runCase(&in)
	if err != nil {
		fmt.Printf("replay C20: constructor error: %v\n", err)
		if cidrOK(in.WhiteList) {
			c.Fail("replay", "constructor", err.Error(), in)
		}
		return nil
	}
	for i, op := range in.Ops {
		o := obs[i]
		switch op.Kind {
		case "inc":
			fmt.Printf("  %d Inc(%d.%09d, %q) = (%d, %d, %v)\n", i, op.Sec, op.Nsec, op.IP, o.Nr, o.Mx, o.Ok)
		case "count":
			fmt.Printf("  %d Count(%q) = %d\n", i, op.IP, o.N)
		case "end":
			fmt.Printf("  %d EndTime() = %s\n", i, o.End)
		case "mw":
			h := "<none>"
			if o.Hdr != nil {
				h = *o.Hdr
			}
			fmt.Printf("  %d middleware(remote %q, xff %q) class %d header %s\n", i, op.RemoteAddr, op.XFF, o.Cls, h)
		}
	}
	oracle(c, "replay", &in, obs)
	return nil
}
