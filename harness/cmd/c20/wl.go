package main

import (
	"math/big"
	"net/netip"
	"strings"
)

// The harness's own reading of "the address is inside one of the white-listed blocks", written
// with net/netip and explicit bit arithmetic (the implementation uses net.ParseCIDR /
// net.ParseIP / IPNet.Contains). It is the oracle's notion of "white-listed" and the table that
// the Coq model receives.

// cidrOK says whether a block list is acceptable to NewIPRequestLimiter ("" = no white list).
func cidrOK(whiteList string) bool {
	if whiteList == "" {
		return true
	}
	for _, b := range strings.Split(whiteList, ",") {
		if _, err := netip.ParsePrefix(b); err != nil {
			return false
		}
		if strings.Contains(b, "%") {
			return false
		}
	}
	return true
}

func prefixBits(a netip.Addr, n int) *big.Int {
	raw := a.AsSlice()
	v := new(big.Int).SetBytes(raw)
	return v.Rsh(v, uint(len(raw)*8-n))
}

// whitelisted: some block contains the address the string denotes; a string that is not one
// IP address (empty, a list, a host name, an address with a zone) is in no block.
func whitelisted(whiteList string, ip string) bool {
	if whiteList == "" {
		return false
	}
	a, err := netip.ParseAddr(ip)
	if err != nil || a.Zone() != "" {
		return false
	}
	a = a.Unmap() // ::ffff:a.b.c.d counts as the IPv4 address a.b.c.d
	for _, b := range strings.Split(whiteList, ",") {
		p, err := netip.ParsePrefix(b)
		if err != nil {
			continue
		}
		pa, bits := p.Addr(), p.Bits()
		if pa.Is4In6() && bits >= 96 { // an IPv4-mapped block is an IPv4 block
			pa, bits = pa.Unmap(), bits-96
		}
		if pa.Is4() != a.Is4() {
			continue
		}
		if prefixBits(pa, bits).Cmp(prefixBits(a, bits)) == 0 {
			return true
		}
	}
	return false
}
