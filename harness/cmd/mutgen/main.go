// mutgen lists classical mutants (operator, constant and boolean replacements) of the named functions of one Go
// source file: mutgen <file> <func>[,<func>...]  ->  JSON lines {func, line, offset, length, orig, repl}.
// Used by /verif/mutsweep.py (a measurement of what the checks detect; not part of any registered check).
package main

import (
	"encoding/json"
	"fmt"
	"go/ast"
	"go/parser"
	"go/scanner"
	"go/token"
	"os"
	"strconv"
	"strings"
)

type mutant struct {
	Func   string `json:"func"`
	Line   int    `json:"line"`
	Offset int    `json:"offset"`
	Length int    `json:"length"`
	Orig   string `json:"orig"`
	Repl   string `json:"repl"`
}

var swaps = map[token.Token][]string{
	token.LSS: {"<="}, token.LEQ: {"<"}, token.GTR: {">="}, token.GEQ: {">"},
	token.EQL: {"!="}, token.NEQ: {"=="},
	token.ADD: {"-"}, token.SUB: {"+"},
	token.LAND: {"||"}, token.LOR: {"&&"},
	token.QUO: {"*"}, token.REM: {"/"},
}

func main() {
	if len(os.Args) < 3 {
		fmt.Fprintln(os.Stderr, "usage: mutgen <file> <func,func,...>")
		os.Exit(2)
	}
	src, err := os.ReadFile(os.Args[1])
	if err != nil {
		panic(err)
	}
	want := map[string]bool{}
	for _, f := range strings.Split(os.Args[2], ",") {
		want[strings.TrimSpace(f)] = true
	}
	fset := token.NewFileSet()
	f, err := parser.ParseFile(fset, os.Args[1], src, 0)
	if err != nil {
		panic(err)
	}
	type rng struct {
		name     string
		from, to int
	}
	var ranges []rng
	for _, d := range f.Decls {
		fd, ok := d.(*ast.FuncDecl)
		if !ok || fd.Body == nil || !(want[fd.Name.Name] || want["*"]) {
			continue
		}
		ranges = append(ranges, rng{fd.Name.Name, fset.Position(fd.Body.Lbrace).Offset, fset.Position(fd.Body.Rbrace).Offset})
	}
	in := func(off int) string {
		for _, r := range ranges {
			if off > r.from && off < r.to {
				return r.name
			}
		}
		return ""
	}
	var s scanner.Scanner
	file := token.NewFileSet().AddFile(os.Args[1], -1, len(src))
	s.Init(file, src, nil, 0)
	enc := json.NewEncoder(os.Stdout)
	var prev token.Token
	for {
		pos, tok, lit := s.Scan()
		if tok == token.EOF {
			break
		}
		off := file.Offset(pos)
		fn := in(off)
		if fn != "" {
			line := file.Line(pos)
			if reps, ok := swaps[tok]; ok {
				// unary minus / plus and pointer stars are not arithmetic operators
				operand := prev == token.IDENT || prev == token.INT || prev == token.FLOAT || prev == token.STRING || prev == token.CHAR || prev == token.RPAREN || prev == token.RBRACK || prev == token.RBRACE
				unary := (tok == token.SUB || tok == token.ADD) && !operand
				if !unary {
					for _, r := range reps {
						enc.Encode(mutant{fn, line, off, len(tok.String()), tok.String(), r})
					}
				}
			}
			switch tok {
			case token.INT:
				if v, err := strconv.ParseInt(lit, 0, 64); err == nil && v >= 0 && v <= 100000 {
					enc.Encode(mutant{fn, line, off, len(lit), lit, strconv.FormatInt(v+1, 10)})
					if v > 0 {
						enc.Encode(mutant{fn, line, off, len(lit), lit, strconv.FormatInt(v-1, 10)})
					}
				}
			case token.IDENT:
				if lit == "true" {
					enc.Encode(mutant{fn, line, off, 4, "true", "false"})
				} else if lit == "false" {
					enc.Encode(mutant{fn, line, off, 5, "false", "true"})
				}
			}
		}
		if tok != token.COMMENT {
			prev = tok
		}
	}
}
