// probe: ad-hoc requests against an in-process livesim2 (development aid, not used by checks).
package main

import (
	"fmt"
	"os"

	"verifharness/lib"
)

func main() {
	vod := lib.TestVodRoot
	args := os.Args[1:]
	if len(args) > 1 && args[0] == "-vod" {
		vod = args[1]
		args = args[2:]
	}
	ls, err := lib.NewLivesim(vod, nil)
	if err != nil {
		panic(err)
	}
	for _, u := range args {
		r := ls.GetRaw(u)
		fmt.Printf("%s -> %d %s panic=%q len=%d\n", u, r.Status, r.Header.Get("Content-Type"), r.Panic, len(r.Body))
		if len(r.Body) < 30000 && r.Header.Get("Content-Type") != "video/mp4" && r.Header.Get("Content-Type") != "audio/mp4" {
			fmt.Println(string(r.Body))
		}
	}
}
