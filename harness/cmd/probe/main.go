// probe: ad-hoc requests against an in-process livesim2 (development aid, not used by checks).
package main

import (
	"fmt"
	"os"
	"strings"

	"verifharness/lib"
)

func main() {
	vod := lib.TestVodRoot
	args := os.Args[1:]
	if len(args) > 1 && args[0] == "-vod" {
		vod = args[1]
		args = args[2:]
	}
	if len(args) > 0 && args[0] == "-gen" { // serve the generated catalogue
		args = args[1:]
		var layouts []lib.GenAsset
		for _, l := range lib.GenCatalogue() {
			layouts = append(layouts, l.Asset)
		}
		root, cleanup, err := lib.ScratchDir("probe")
		if err != nil {
			panic(err)
		}
		defer cleanup()
		for _, ga := range layouts {
			if err := lib.WriteAsset(root, ga); err != nil {
				panic(err)
			}
		}
		vod = root
	}
	ls, err := lib.NewLivesim(vod, nil)
	if err != nil {
		panic(err)
	}
	for _, u := range args {
		r := ls.GetRaw(u)
		if !strings.HasPrefix(u, "/livesim2/") {
			r = ls.Get(u)
		}
		fmt.Printf("%s -> %d %s panic=%q len=%d\n", u, r.Status, r.Header.Get("Content-Type"), r.Panic, len(r.Body))
		if len(r.Body) < 30000 && r.Header.Get("Content-Type") != "video/mp4" && r.Header.Get("Content-Type") != "audio/mp4" {
			fmt.Println(string(r.Body))
		}
	}
}
