package lib

// assetgen: synthesis of VoD assets that livesim2 (cmd/livesim2/app/asset.go: discoverAssets, loadAsset,
// loadRep, consolidateAsset) loads and serves, so that property checks can quantify over generated layouts
// instead of only the bundled test assets.
//
//	a := lib.GenAsset{Name: "g1", Reps: []lib.GenRep{
//	        lib.VideoRep("V300", 90000, 3000, lib.UniformDurs(4, 180000)),                       // 4 x 2 s, 30 fps
//	        lib.AudioRep("A48", 1024, lib.AudioDursFollowing(lib.UniformDurs(4, 180000), 90000, 48000, 1024, 0)),
//	}}
//	err := lib.WriteAsset(vodRoot, a)      // <vodRoot>/g1/Manifest.mpd, V300/init.mp4, V300/1.m4s ...
//	ok, why := a.PredictAdmission()        // the rule of consolidateAsset, evaluated on the description
//	ls, _ := lib.NewLivesim(vodRoot, nil)
//	r := ls.Get("/livesim2/g1/V300/7.m4s?nowMS=100000")
//	obs, _ := lib.DecodeGenSegment(r.Body) // tfdt, mfhd sequence number, global sample index of every sample
//	tfdt, k, _ := a.LiveSeg(0, 7)          // expected decode time and VoD segment index (n mod N)
//	a.Reps[0].SegPayloadHash(k)            // == lib.ParseMediaSegment(r.Body, nil).Payload
//
// Every sample payload is distinct and deterministic: it encodes (representation id, global sample index), see
// GenSamplePayload / DecodeGenPayload. The first video sample of every segment is flagged sync, the others non-sync.

import (
	"bytes"
	"crypto/sha256"
	"encoding/binary"
	"encoding/hex"
	"fmt"
	"hash/fnv"
	"os"
	"path/filepath"
	"sort"
	"strconv"
	"strings"

	"github.com/Eyevinn/mp4ff/aac"
	"github.com/Eyevinn/mp4ff/mp4"
)

// GenRep describes one representation of a generated asset.
type GenRep struct {
	ID   string
	Kind string // "video" | "audio" | "stpp" | "thumbs"
	// Timescale is the media timescale (mdhd and SegmentTemplate@timescale).
	Timescale uint32
	// SegDurs is the duration of every VoD segment in ticks. video/audio: a multiple of SampleDur.
	// stpp: one sample per segment. thumbs: all equal (the loader derives times from SegmentTemplate@duration).
	SegDurs []uint64
	// SampleDur is the video frame duration or the audio frame duration (1024 AAC, 1536 AC-3). Ignored for stpp/thumbs.
	SampleDur uint32
	// StartNumber is the number of the first VoD file and SegmentTemplate@startNumber. 0 means 1
	// (set ZeroStartNumber for a real 0).
	StartNumber     int
	ZeroStartNumber bool
	// StartTime is the baseMediaDecodeTime of the first VoD segment (normally 0).
	StartTime uint64
	// Gaps (nil or one entry per segment): Gaps[k] ticks without media are inserted before segment k, i.e. the
	// VoD track is not contiguous. With TimelineMPD the gap is declared by an explicit S@t.
	Gaps []uint64
	// Codec is the codecs attribute. Default: avc1.64001e, mp4a.40.2, stpp; "ac-3" gives an AC-3 sample entry.
	Codec     string
	Bandwidth int
	Lang      string
	// TimelineMPD: SegmentTimeline with $Time$ file names instead of $Number$ + duration.
	TimelineMPD bool
	// Frags > 1 splits every segment into that many moof/mdat pairs (at most one per sample).
	Frags int
	// CompactTrun moves common sample duration/size/flags into tfhd defaults (mp4ff OptimizeTfhdTrun), like
	// segments of other packagers; livesim2 then reads DefaultSampleDuration from tfhd.
	CompactTrun bool
	// BothSizes writes the sample size of a one-sample fragment (stpp) into tfhd.default_sample_size as well as
	// into the trun (both are legal together; the trun value wins for every parser).
	BothSizes bool
	// TTMLApos writes the begin/end attributes of the stpp documents with apostrophes (begin='...'), which XML allows.
	TTMLApos bool
	// Jitter makes sample durations non-constant (+1/-1 tick on the first two samples of every segment; the
	// segment durations are unchanged). loadAsset rejects such an audio representation ("does not have (known)
	// constant sample duration").
	Jitter bool
	// SegSampleDurs (video only; nil or one entry per segment, 0 = SampleDur): the common sample duration of the
	// samples of segment k, i.e. a frame rate that changes between segments. With CompactTrun the value sits in
	// tfhd.default_sample_duration of that segment only and overrides trex and whatever earlier segments said.
	SegSampleDurs []uint32
}

// segSampleDur is the common sample duration of segment k.
func (r GenRep) segSampleDur(k int) uint32 {
	if r.Kind == "video" && k < len(r.SegSampleDurs) && r.SegSampleDurs[k] != 0 {
		return r.SegSampleDurs[k]
	}
	return r.SampleDur
}

// GenAsset is a generated asset: <vodRoot>/<Name>/Manifest.mpd plus one directory per representation.
// Name may contain slashes (nested directories).
type GenAsset struct {
	Name string
	Reps []GenRep
	// MPDName defaults to Manifest.mpd.
	MPDName string
}

// ---- small constructors ------------------------------------------------------------------------------------

// UniformDurs returns n times d.
func UniformDurs(n int, d uint64) []uint64 {
	out := make([]uint64, n)
	for i := range out {
		out[i] = d
	}
	return out
}

// AlternatingDurs returns a, b, a, b, ... (n entries).
func AlternatingDurs(n int, a, b uint64) []uint64 {
	out := make([]uint64, n)
	for i := range out {
		if i%2 == 0 {
			out[i] = a
		} else {
			out[i] = b
		}
	}
	return out
}

// FrameDurs converts segment lengths in frames into ticks.
func FrameDurs(sampleDur uint32, frames ...int) []uint64 {
	out := make([]uint64, len(frames))
	for i, f := range frames {
		out[i] = uint64(f) * uint64(sampleDur)
	}
	return out
}

// VideoRep is an avc1 representation with $Number$ files starting at 1.
func VideoRep(id string, timescale, sampleDur uint32, segDurs []uint64) GenRep {
	return GenRep{ID: id, Kind: "video", Timescale: timescale, SampleDur: sampleDur, SegDurs: segDurs, Bandwidth: 300000}
}

// AudioRep is a 48 kHz representation: AAC-LC for frameDur 1024, AC-3 for 1536.
func AudioRep(id string, frameDur uint32, segDurs []uint64) GenRep {
	r := GenRep{ID: id, Kind: "audio", Timescale: 48000, SampleDur: frameDur, SegDurs: segDurs, Bandwidth: 48000}
	if frameDur == 1536 {
		r.Codec = "ac-3"
	}
	return r
}

// StppRep is a TTML subtitle representation with one sample per segment.
func StppRep(id string, timescale uint32, segDurs []uint64) GenRep {
	return GenRep{ID: id, Kind: "stpp", Timescale: timescale, SegDurs: segDurs, Bandwidth: 10000}
}

// ThumbsRep is a thumbnail representation (<id>/<n>.jpg), one image per dur ticks.
func ThumbsRep(id string, timescale uint32, n int, dur uint64) GenRep {
	return GenRep{ID: id, Kind: "thumbs", Timescale: timescale, SegDurs: UniformDurs(n, dur), Bandwidth: 10000}
}

// CeilFrame is the first multiple of frameDur (audio ticks) at or after refTime/refTimescale.
func CeilFrame(refTime, refTimescale, frameDur, audioTimescale uint64) uint64 {
	num := refTime * audioTimescale // refTime/refTimescale seconds = num/refTimescale audio ticks
	den := refTimescale * frameDur
	return (num + den - 1) / den * frameDur
}

// AudioDursFollowing returns the audio segment grid that follows the given video grid the way packagers do:
// audio segment k ends at the first frame boundary at or after the end of video segment k. lastDeltaFrames is
// added to the last segment (negative: audio loop shorter than that, positive: longer). Every segment keeps at
// least one frame.
func AudioDursFollowing(videoDurs []uint64, videoTS, audioTS, frameDur uint32, lastDeltaFrames int) []uint64 {
	out := make([]uint64, len(videoDurs))
	var vEnd, aPrev uint64
	for i, d := range videoDurs {
		vEnd += d
		aEnd := CeilFrame(vEnd, uint64(videoTS), uint64(frameDur), uint64(audioTS))
		if aEnd <= aPrev { // video segment shorter than one audio frame: keep at least one frame per VoD segment
			aEnd = aPrev + uint64(frameDur)
		}
		out[i] = aEnd - aPrev
		aPrev = aEnd
	}
	if len(out) > 0 {
		last := int64(out[len(out)-1]) + int64(lastDeltaFrames)*int64(frameDur)
		if last < int64(frameDur) {
			last = int64(frameDur)
		}
		out[len(out)-1] = uint64(last)
	}
	return out
}

// ---- arithmetic on the description --------------------------------------------------------------------------

// N is the number of VoD segments.
func (r GenRep) N() int { return len(r.SegDurs) }

// FirstNr is the number of the first VoD file.
func (r GenRep) FirstNr() int {
	if r.ZeroStartNumber {
		return 0
	}
	if r.StartNumber == 0 {
		return 1
	}
	return r.StartNumber
}

// Start is the decode time of VoD segment k (0-based).
func (r GenRep) Start(k int) uint64 {
	t := r.StartTime
	for i := 0; i < k; i++ {
		t += r.SegDurs[i]
	}
	for i := 0; i <= k && i < len(r.Gaps); i++ {
		t += r.Gaps[i]
	}
	return t
}

// HasGaps tells whether the VoD track is not contiguous.
func (r GenRep) HasGaps() bool {
	for _, g := range r.Gaps {
		if g != 0 {
			return true
		}
	}
	return false
}

// Span is End(N-1) - Start(0): what asset.go calls the duration of the representation. It equals LoopDur()
// unless there are gaps after the first segment.
func (r GenRep) Span() uint64 { return r.End(r.N()-1) - r.Start(0) }

// End is the end time of VoD segment k.
func (r GenRep) End(k int) uint64 { return r.Start(k) + r.SegDurs[k] }

// LoopDur is the sum of the segment durations.
func (r GenRep) LoopDur() uint64 {
	var t uint64
	for _, d := range r.SegDurs {
		t += d
	}
	return t
}

// NSamples is the number of samples in VoD segment k.
func (r GenRep) NSamples(k int) int {
	switch r.Kind {
	case "stpp", "thumbs":
		return 1
	}
	return int(r.SegDurs[k] / uint64(r.segSampleDur(k)))
}

// FirstSample is the global index (0-based over the whole VoD track) of the first sample of segment k.
func (r GenRep) FirstSample(k int) uint64 {
	var n uint64
	for i := 0; i < k; i++ {
		n += uint64(r.NSamples(i))
	}
	return n
}

// TotalSamples is the number of samples of the VoD track.
func (r GenRep) TotalSamples() uint64 { return r.FirstSample(r.N()) }

// FileName is the path of VoD segment k relative to the asset directory.
func (r GenRep) FileName(k int) string {
	ext := ".m4s"
	if r.Kind == "thumbs" {
		ext = ".jpg"
	}
	if r.TimelineMPD && r.Kind != "thumbs" {
		return r.ID + "/" + strconv.FormatUint(r.Start(k), 10) + ext
	}
	return r.ID + "/" + strconv.Itoa(r.FirstNr()+k) + ext
}

func (r GenRep) contentType() string {
	switch r.Kind {
	case "video", "audio":
		return r.Kind
	case "stpp":
		return "text"
	case "thumbs":
		return "image"
	}
	return r.Kind
}

func (r GenRep) codec() string {
	if r.Codec != "" {
		return r.Codec
	}
	switch r.Kind {
	case "video":
		return "avc1.64001e"
	case "audio":
		return "mp4a.40.2"
	case "stpp":
		return "stpp"
	}
	return ""
}

// sampleDurAt is the duration of sample j (0-based within segment k).
func (r GenRep) sampleDurAt(k, j int) uint32 {
	switch r.Kind {
	case "stpp", "thumbs":
		return uint32(r.SegDurs[k])
	}
	d := r.segSampleDur(k)
	if r.Jitter && r.NSamples(k) >= 2 {
		switch j {
		case 0:
			d++
		case 1:
			d--
		}
	}
	return d
}

// GenRepTag identifies a representation id inside sample payloads.
func GenRepTag(repID string) uint32 {
	h := fnv.New32a()
	h.Write([]byte(repID))
	return h.Sum32()
}

// GenSamplePayload is the 16-byte identity of sample idx of representation repID:
// tag(4, FNV-1a of the id) | idx (8, big endian) | first 4 bytes of SHA-256("assetgen|"+id+"|"+idx).
func GenSamplePayload(repID string, idx uint64) []byte {
	b := make([]byte, 16)
	binary.BigEndian.PutUint32(b[0:4], GenRepTag(repID))
	binary.BigEndian.PutUint64(b[4:12], idx)
	s := sha256.Sum256([]byte("assetgen|" + repID + "|" + strconv.FormatUint(idx, 10)))
	copy(b[12:16], s[:4])
	return b
}

// DecodeGenPayload inverts GenSamplePayload / SampleData for audio (16 bytes) and video (28 bytes:
// 4-byte NALU length, 8 bytes of slice NALU start, identity) sample data. The check bytes are not verified here (the id is
// not known); use GenRep.SampleData for an exact comparison.
func DecodeGenPayload(data []byte) (tag uint32, idx uint64, ok bool) {
	switch len(data) {
	case 16:
	case 28:
		if binary.BigEndian.Uint32(data[0:4]) != 24 {
			return 0, 0, false
		}
		data = data[12:]
	default:
		return 0, 0, false
	}
	return binary.BigEndian.Uint32(data[0:4]), binary.BigEndian.Uint64(data[4:12]), true
}

// genIDRStart / genPStart are the first bytes (NALU header + complete slice header) of a real IDR and a real P
// slice coded against genSPS/genPPS, so that the sample parses as an AVC access unit (needed by the cbcs
// subsample encryption of the eccp_cbcs URL option).
var (
	genIDRStart = []byte{0x65, 0x88, 0x84, 0x00, 0x4f, 0xfe, 0xde, 0x23}
	genPStart   = []byte{0x41, 0x9a, 0x21, 0x6c, 0x44, 0xff, 0xc0, 0xa6}
)

// SampleData is the mdat payload of the sample with global index idx. first says whether it is the first
// sample of its VoD segment (video: IDR slice start instead of P slice start).
func (r GenRep) SampleData(idx uint64, first bool) []byte {
	id := GenSamplePayload(r.ID, idx)
	switch r.Kind {
	case "video":
		out := make([]byte, 0, 28)
		out = append(out, 0, 0, 0, 24)
		if first {
			out = append(out, genIDRStart...)
		} else {
			out = append(out, genPStart...)
		}
		return append(out, id...)
	case "stpp":
		return r.stppDoc(int(idx), 0)
	case "thumbs":
		out := []byte{0xff, 0xd8, 0xff, 0xe0}
		out = append(out, id...)
		return append(out, 0xff, 0xd9)
	}
	return id
}

func msStamp(ms uint64) string {
	return fmt.Sprintf("%02d:%02d:%02d.%03d", ms/3600000, (ms%3600000)/60000, (ms%60000)/1000, ms%1000)
}

// StppDoc is the TTML document of VoD segment k with all time stamps moved by shiftMS: what livesim2 is
// expected to serve (shiftStppTimes) when the decode time moved by shiftMS. The cue spans the segment
// (times truncated to ms).
func (r GenRep) StppDoc(k int, shiftMS uint64) []byte { return r.stppDoc(k, shiftMS) }

func (r GenRep) stppDoc(k int, shiftMS uint64) []byte {
	b := r.Start(k) * 1000 / uint64(r.Timescale)
	e := r.End(k) * 1000 / uint64(r.Timescale)
	q := `"`
	if r.TTMLApos {
		q = "'"
	}
	return []byte(fmt.Sprintf(`<?xml version="1.0" encoding="UTF-8"?>
<tt xmlns="http://www.w3.org/ns/ttml" xml:lang="en"><body><div>
<p xml:id="%s-%d" begin=%s%s%s end=%s%s%s>assetgen %x segment %d</p>
</div></body></tt>
`, r.ID, k, q, msStamp(b+shiftMS), q, q, msStamp(e+shiftMS), q, GenSamplePayload(r.ID, uint64(k)), k))
}

// PayloadHash is the SHA-256 (hex) over the concatenated data of the given samples, i.e. the value
// ParseMediaSegment(...).Payload has for a segment made of exactly these samples (video: a sample that is the
// first one of its VoD segment carries the IDR slice start, as written by WriteAsset).
func (r GenRep) PayloadHash(idxs []uint64) string {
	firsts := map[uint64]bool{}
	for k := 0; k < r.N(); k++ {
		firsts[r.FirstSample(k)] = true
	}
	h := sha256.New()
	for _, i := range idxs {
		h.Write(r.SampleData(i, firsts[i]))
	}
	return hex.EncodeToString(h.Sum(nil))
}

// SegSampleIdx lists the global sample indices of VoD segment k.
func (r GenRep) SegSampleIdx(k int) []uint64 {
	f := r.FirstSample(k)
	out := make([]uint64, r.NSamples(k))
	for i := range out {
		out[i] = f + uint64(i)
	}
	return out
}

// SegPayloadHash is the payload hash of VoD segment k (== LoadVodRep(...).Segs[k].Payload).
func (r GenRep) SegPayloadHash(k int) string { return r.PayloadHash(r.SegSampleIdx(k)) }

// ---- admission oracle ---------------------------------------------------------------------------------------

// RefRep is the index of the reference representation chosen by setReferenceRep: the video representation with
// the smallest id (string order), else the audio representation with the smallest id; -1 if there is none.
func (a GenAsset) RefRep() int {
	idx := make([]int, len(a.Reps))
	for i := range idx {
		idx[i] = i
	}
	sort.Slice(idx, func(i, j int) bool { return a.Reps[idx[i]].ID < a.Reps[idx[j]].ID })
	for _, kind := range []string{"video", "audio"} {
		for _, i := range idx {
			if a.Reps[i].Kind == kind {
				return i
			}
		}
	}
	return -1
}

// LoopDurMS is the loop duration in ms of the reference representation and whether it is a whole number of ms.
func (a GenAsset) LoopDurMS() (ms uint64, whole bool) {
	i := a.RefRep()
	if i < 0 {
		return 0, false
	}
	r := a.Reps[i]
	ms = 1000 * r.Span() / uint64(r.Timescale)
	return ms, ms*uint64(r.Timescale) == 1000*r.Span()
}

// PredictAdmission evaluates, on the description, the admission rule of asset.go:
//
//	consolidateAsset: LoopDurMS = 1000*refRep.duration()/refRep.MediaTimescale must satisfy
//	LoopDurMS*MediaTimescale == 1000*duration ("cannot match loop duration"), and every representation of the
//	reference's content type must have 1000*duration/timescale (integer division) == LoopDurMS
//	("pre-encrypted representations do not all have same duration");
//	loadAsset: an audio representation needs a constant non-zero sample duration.
//
// It returns the verdict the *rule* gives. The loader's actual behaviour for the audio rule differs, see the
// self-test (cmd/assetgentest): the error is returned after the representation has been registered.
func (a GenAsset) PredictAdmission() (bool, string) {
	ri := a.RefRep()
	if ri < 0 {
		return false, "no video or audio representation found"
	}
	ref := a.Reps[ri]
	ms, whole := a.LoopDurMS()
	if !whole {
		return false, fmt.Sprintf("cannot match loop duration %d rep %s", ms, ref.ID)
	}
	for _, r := range a.Reps {
		if r.Kind == "audio" && r.Jitter {
			return false, fmt.Sprintf("audio rep %s does not have (known) constant sample duration", r.ID)
		}
	}
	for _, r := range a.Reps {
		if r.Kind != ref.Kind {
			continue
		}
		if d := 1000 * r.Span() / uint64(r.Timescale); d != ms {
			return false, fmt.Sprintf("duration differs: rep %s %d ms, reference %s %d ms", r.ID, d, ref.ID, ms)
		}
	}
	return true, ""
}

// LiveSeg is the expectation of property C01 for segment index n (counted from availabilityStartTime, default
// startNumber 0) of a video/stpp/thumbs representation ri: the VoD segment k = n mod N and the decode time
// floor(n/N)*loop + Start(k), where loop is the asset's loop duration (reference representation) expressed in
// the representation's timescale. exact is false when that loop duration is not a whole number of ticks or
// differs from the representation's own duration, or the VoD track has gaps (the looped timeline then has a gap
// or an overlap).
func (a GenAsset) LiveSeg(ri int, n int) (tfdt uint64, k int, exact bool) {
	r := a.Reps[ri]
	ms, whole := a.LoopDurMS()
	loop := ms * uint64(r.Timescale) / 1000
	exact = whole && loop*1000 == ms*uint64(r.Timescale) && loop == r.Span() && !r.HasGaps()
	N := r.N()
	k = n % N
	return uint64(n/N)*loop + r.Start(k), k, exact
}

// ---- writing ------------------------------------------------------------------------------------------------

const (
	genSPS = "6764001eacd940a02ff9610000030001000003003c8f162d96" // 640x360 High@3.0 (as testpic_2s/V300)
	genPPS = "68ebecb22c"
)

func (r GenRep) check() error {
	if r.ID == "" || strings.ContainsAny(r.ID, "/$") {
		return fmt.Errorf("assetgen: bad representation id %q", r.ID)
	}
	if r.Timescale == 0 {
		return fmt.Errorf("assetgen: rep %s: timescale 0", r.ID)
	}
	if len(r.SegDurs) == 0 {
		return fmt.Errorf("assetgen: rep %s: no segments", r.ID)
	}
	if r.Gaps != nil && (len(r.Gaps) != len(r.SegDurs) || r.Kind == "thumbs") {
		return fmt.Errorf("assetgen: rep %s: Gaps needs one entry per segment (not supported for thumbs)", r.ID)
	}
	switch r.Kind {
	case "video", "audio":
		if r.SampleDur == 0 {
			return fmt.Errorf("assetgen: rep %s: SampleDur 0", r.ID)
		}
		for k, d := range r.SegDurs {
			if d == 0 || d%uint64(r.segSampleDur(k)) != 0 {
				return fmt.Errorf("assetgen: rep %s: segment %d duration %d is not a positive multiple of its sample duration %d", r.ID, k, d, r.segSampleDur(k))
			}
		}
	case "stpp":
		for k, d := range r.SegDurs {
			if d == 0 || d > 0xffffffff {
				return fmt.Errorf("assetgen: rep %s: segment %d duration %d", r.ID, k, d)
			}
		}
	case "thumbs":
		for _, d := range r.SegDurs {
			if d != r.SegDurs[0] || d == 0 {
				return fmt.Errorf("assetgen: rep %s: thumbnails need one common duration", r.ID)
			}
		}
	default:
		return fmt.Errorf("assetgen: rep %s: unknown kind %q", r.ID, r.Kind)
	}
	return nil
}

// InitSegment builds the init segment of the representation (nil for thumbs).
func (r GenRep) InitSegment() (*mp4.InitSegment, error) {
	init := mp4.CreateEmptyInit()
	lang := r.Lang
	if lang == "" {
		lang = "und"
		if r.Kind != "video" {
			lang = "eng"
		}
	}
	switch r.Kind {
	case "video":
		init.AddEmptyTrack(r.Timescale, "video", lang)
		sps, _ := hex.DecodeString(genSPS)
		pps, _ := hex.DecodeString(genPPS)
		if err := init.Moov.Trak.SetAVCDescriptor("avc1", [][]byte{sps}, [][]byte{pps}, true); err != nil {
			return nil, err
		}
	case "audio":
		init.AddEmptyTrack(r.Timescale, "audio", lang)
		switch {
		case strings.HasPrefix(r.codec(), "ac-3"):
			dac3 := &mp4.Dac3Box{FSCod: 0, BSID: 8, BSMod: 0, ACMod: 2, LFEOn: 0, BitRateCode: 10}
			if err := init.Moov.Trak.SetAC3Descriptor(dac3); err != nil {
				return nil, err
			}
		default:
			if err := init.Moov.Trak.SetAACDescriptor(aac.AAClc, int(r.Timescale)); err != nil {
				return nil, err
			}
		}
	case "stpp":
		init.AddEmptyTrack(r.Timescale, "subtitle", lang)
		if err := init.Moov.Trak.SetStppDescriptor("http://www.w3.org/ns/ttml", "", ""); err != nil {
			return nil, err
		}
	default:
		return nil, nil
	}
	return init, nil
}

// MediaSegment builds VoD segment k (styp + moof/mdat).
func (r GenRep) MediaSegment(k int) (*mp4.MediaSegment, error) {
	seg := mp4.NewMediaSegment()
	n := r.NSamples(k)
	nFrags := r.Frags
	if nFrags < 1 {
		nFrags = 1
	}
	if nFrags > n {
		nFrags = n
	}
	seqNr := uint32(r.FirstNr() + k)
	if seqNr == 0 {
		seqNr = 1
	}
	first := r.FirstSample(k)
	t := r.Start(k)
	j := 0
	for f := 0; f < nFrags; f++ {
		frag, err := mp4.CreateFragment(seqNr, 1)
		if err != nil {
			return nil, err
		}
		end := (f + 1) * n / nFrags
		for ; j < end; j++ {
			data := r.SampleData(first+uint64(j), j == 0)
			flags := mp4.SyncSampleFlags
			if r.Kind == "video" && j != 0 {
				flags = mp4.NonSyncSampleFlags
			}
			dur := r.sampleDurAt(k, j)
			frag.AddFullSample(mp4.FullSample{
				Sample:     mp4.NewSample(flags, dur, uint32(len(data)), 0),
				DecodeTime: t,
				Data:       data,
			})
			t += uint64(dur)
		}
		if r.CompactTrun {
			if err := frag.Moof.Traf.OptimizeTfhdTrun(); err != nil {
				return nil, err
			}
		}
		if r.BothSizes && len(frag.Moof.Traf.Trun.Samples) > 0 {
			tfhd := frag.Moof.Traf.Tfhd
			tfhd.Flags |= 0x000010 // default-sample-size-present
			tfhd.DefaultSampleSize = frag.Moof.Traf.Trun.Samples[0].Size
		}
		seg.AddFragment(frag)
	}
	return seg, nil
}

func encodeTo(path string, enc func(*bytes.Buffer) error) error {
	var buf bytes.Buffer
	if err := enc(&buf); err != nil {
		return err
	}
	return os.WriteFile(path, buf.Bytes(), 0o644)
}

func isoDur(ticks uint64, timescale uint32) string {
	us := ticks * 1000000 / uint64(timescale)
	s := fmt.Sprintf("%d.%06d", us/1000000, us%1000000)
	s = strings.TrimRight(s, "0")
	s = strings.TrimSuffix(s, ".")
	return "PT" + s + "S"
}

func xmlEsc(s string) string {
	r := strings.NewReplacer("&", "&amp;", "<", "&lt;", ">", "&gt;", `"`, "&quot;")
	return r.Replace(s)
}

// MPD renders the static MPD of the asset: one AdaptationSet (with the SegmentTemplate) per representation.
func (a GenAsset) MPD() string {
	var b strings.Builder
	ri := a.RefRep()
	if ri < 0 {
		ri = 0
	}
	var total, maxSeg string
	if len(a.Reps) > 0 {
		ref := a.Reps[ri]
		total = isoDur(ref.Span(), ref.Timescale)
		var mx uint64
		for _, d := range ref.SegDurs {
			if d > mx {
				mx = d
			}
		}
		maxSeg = isoDur(mx, ref.Timescale)
	}
	fmt.Fprintf(&b, `<?xml version="1.0" encoding="utf-8"?>
<MPD xmlns="urn:mpeg:dash:schema:mpd:2011" profiles="urn:mpeg:dash:profile:isoff-live:2011" maxSegmentDuration="%s" minBufferTime="PT2S" type="static" mediaPresentationDuration="%s" id="assetgen">
   <ProgramInformation>
      <Title>assetgen %s</Title>
   </ProgramInformation>
   <Period id="p0" start="PT0S">
`, maxSeg, total, xmlEsc(a.Name))
	for i, r := range a.Reps {
		var mime, extra, repExtra string
		switch r.Kind {
		case "video":
			mime = "video/mp4"
			extra = ` segmentAlignment="true" startWithSAP="1" par="16:9"`
			repExtra = fmt.Sprintf(` width="640" height="360" sar="1:1" frameRate="%d/%d"`, r.Timescale, r.SampleDur)
		case "audio":
			mime = "audio/mp4"
			lang := r.Lang
			if lang == "" {
				lang = "en"
			}
			extra = fmt.Sprintf(` lang="%s" segmentAlignment="true" startWithSAP="1"`, xmlEsc(lang))
			repExtra = fmt.Sprintf(` audioSamplingRate="%d"`, r.Timescale)
		case "stpp":
			mime = "application/mp4"
			lang := r.Lang
			if lang == "" {
				lang = "en"
			}
			extra = fmt.Sprintf(` lang="%s" segmentAlignment="true"`, xmlEsc(lang))
			repExtra = ` startWithSAP="1"`
		case "thumbs":
			mime = "image/jpeg"
		}
		fmt.Fprintf(&b, `      <AdaptationSet id="%d" contentType="%s" mimeType="%s"%s>
`, i+1, r.contentType(), mime, extra)
		if r.Kind == "audio" || r.Kind == "video" {
			b.WriteString("         <Role schemeIdUri=\"urn:mpeg:dash:role:2011\" value=\"main\"/>\n")
		}
		if r.Kind == "stpp" {
			b.WriteString("         <Role schemeIdUri=\"urn:mpeg:dash:role:2011\" value=\"subtitle\"/>\n")
		}
		switch {
		case r.Kind == "thumbs":
			fmt.Fprintf(&b, `         <SegmentTemplate media="$RepresentationID$/$Number$.jpg" duration="%d" timescale="%d" startNumber="%d"/>
`, r.SegDurs[0], r.Timescale, r.FirstNr())
		case r.TimelineMPD:
			fmt.Fprintf(&b, `         <SegmentTemplate initialization="$RepresentationID$/init.mp4" media="$RepresentationID$/$Time$.m4s" timescale="%d">
            <SegmentTimeline>
`, r.Timescale)
			for k := 0; k < r.N(); {
				rep := 0
				gapBefore := func(i int) bool { return i < len(r.Gaps) && r.Gaps[i] != 0 }
				for k+rep+1 < r.N() && r.SegDurs[k+rep+1] == r.SegDurs[k] && !gapBefore(k+rep+1) {
					rep++
				}
				b.WriteString("               <S")
				if k == 0 || gapBefore(k) {
					fmt.Fprintf(&b, ` t="%d"`, r.Start(k))
				}
				fmt.Fprintf(&b, ` d="%d"`, r.SegDurs[k])
				if rep > 0 {
					fmt.Fprintf(&b, ` r="%d"`, rep)
				}
				b.WriteString("/>\n")
				k += rep + 1
			}
			b.WriteString("            </SegmentTimeline>\n         </SegmentTemplate>\n")
		default:
			// nominal duration: the rounded average (exact for uniform layouts)
			avg := (r.LoopDur() + uint64(r.N())/2) / uint64(r.N())
			fmt.Fprintf(&b, `         <SegmentTemplate startNumber="%d" initialization="$RepresentationID$/init.mp4" duration="%d" timescale="%d" media="$RepresentationID$/$Number$.m4s"/>
`, r.FirstNr(), avg, r.Timescale)
		}
		codecs := ""
		if c := r.codec(); c != "" {
			codecs = fmt.Sprintf(` codecs="%s"`, xmlEsc(c))
		}
		bw := r.Bandwidth
		if bw == 0 {
			bw = 10000
		}
		fmt.Fprintf(&b, `         <Representation id="%s"%s bandwidth="%d"%s>
`, xmlEsc(r.ID), codecs, bw, repExtra)
		switch r.Kind {
		case "audio":
			b.WriteString("            <AudioChannelConfiguration schemeIdUri=\"urn:mpeg:dash:23003:3:audio_channel_configuration:2011\" value=\"2\"/>\n")
		case "thumbs":
			b.WriteString("            <EssentialProperty schemeIdUri=\"http://dashif.org/guidelines/thumbnail_tile\" value=\"1x1\"/>\n")
		}
		b.WriteString("         </Representation>\n      </AdaptationSet>\n")
	}
	b.WriteString("   </Period>\n</MPD>\n")
	return b.String()
}

// WriteAsset writes <vodRoot>/<Name>/Manifest.mpd, <rep>/init.mp4 and <rep>/<n>.m4s (or <rep>/<t>.m4s for
// TimelineMPD representations, <rep>/<n>.jpg for thumbnails). It does not decide admissibility: inadmissible
// layouts (see PredictAdmission) are written as described.
func WriteAsset(vodRoot string, a GenAsset) error {
	if a.Name == "" {
		return fmt.Errorf("assetgen: empty asset name")
	}
	seen := map[string]bool{}
	for _, r := range a.Reps {
		if err := r.check(); err != nil {
			return err
		}
		if seen[r.ID] {
			return fmt.Errorf("assetgen: duplicate representation id %q", r.ID)
		}
		seen[r.ID] = true
	}
	dir := filepath.Join(vodRoot, filepath.FromSlash(a.Name))
	if err := os.MkdirAll(dir, 0o755); err != nil {
		return err
	}
	for _, r := range a.Reps {
		rdir := filepath.Join(dir, r.ID)
		if err := os.MkdirAll(rdir, 0o755); err != nil {
			return err
		}
		init, err := r.InitSegment()
		if err != nil {
			return fmt.Errorf("assetgen: rep %s init: %w", r.ID, err)
		}
		if init != nil {
			if err := encodeTo(filepath.Join(rdir, "init.mp4"), func(b *bytes.Buffer) error { return init.Encode(b) }); err != nil {
				return err
			}
		}
		for k := 0; k < r.N(); k++ {
			p := filepath.Join(dir, filepath.FromSlash(r.FileName(k)))
			if r.Kind == "thumbs" {
				if err := os.WriteFile(p, r.SampleData(uint64(k), true), 0o644); err != nil {
					return err
				}
				continue
			}
			seg, err := r.MediaSegment(k)
			if err != nil {
				return fmt.Errorf("assetgen: rep %s segment %d: %w", r.ID, k, err)
			}
			if err := encodeTo(p, func(b *bytes.Buffer) error { return seg.Encode(b) }); err != nil {
				return err
			}
		}
	}
	name := a.MPDName
	if name == "" {
		name = "Manifest.mpd"
	}
	return os.WriteFile(filepath.Join(dir, name), []byte(a.MPD()), 0o644)
}

// ---- reading back what the server returns -------------------------------------------------------------------

// GenSegObs is a served (or VoD) media segment of a generated asset, decoded down to sample identities.
type GenSegObs struct {
	Tfdt       uint64
	Seq        uint32 // mfhd sequence number of the first fragment
	NFrags     int
	HasStyp    bool
	Tag        uint32   // representation tag of the first sample (see GenRepTag)
	Idx        []uint64 // global VoD sample index of every sample; ^0 where the payload is not a generated one
	Durs       []uint32
	Sync       []bool
	Payload    string // SHA-256 over all sample data (== ParseMediaSegment(...).Payload)
	Data       [][]byte
	MixedTags  bool // samples of more than one representation
	Contiguous bool // every fragment starts where the previous one ended
}

// Dur is the sum of the sample durations.
func (o *GenSegObs) Dur() uint64 {
	var t uint64
	for _, d := range o.Durs {
		t += uint64(d)
	}
	return t
}

// DecodeGenSegment parses a media segment whose sample values are all carried in trun/tfhd (true for generated
// assets and for what livesim2 makes of them).
func DecodeGenSegment(data []byte) (*GenSegObs, error) {
	f, err := mp4.DecodeFile(bytes.NewReader(data))
	if err != nil {
		return nil, err
	}
	if len(f.Segments) == 0 {
		return nil, fmt.Errorf("no media segment")
	}
	o := &GenSegObs{Contiguous: true}
	h := sha256.New()
	firstFrag, firstSample := true, true
	var next uint64
	for _, s := range f.Segments {
		if s.Styp != nil {
			o.HasStyp = true
		}
		for _, fr := range s.Fragments {
			o.NFrags++
			t := fr.Moof.Traf.Tfdt.BaseMediaDecodeTime()
			if firstFrag {
				o.Tfdt = t
				o.Seq = fr.Moof.Mfhd.SequenceNumber
				firstFrag = false
			} else if t != next {
				o.Contiguous = false
			}
			samples, err := fr.GetFullSamples(nil)
			if err != nil {
				return nil, err
			}
			next = t
			for _, sm := range samples {
				next += uint64(sm.Dur)
				h.Write(sm.Data)
				o.Durs = append(o.Durs, sm.Dur)
				o.Sync = append(o.Sync, sm.IsSync())
				o.Data = append(o.Data, sm.Data)
				tag, idx, ok := DecodeGenPayload(sm.Data)
				if !ok {
					idx = ^uint64(0)
				}
				if firstSample {
					o.Tag = tag
					firstSample = false
				} else if ok && tag != o.Tag {
					o.MixedTags = true
				}
				o.Idx = append(o.Idx, idx)
			}
		}
	}
	o.Payload = hex.EncodeToString(h.Sum(nil))
	return o, nil
}
