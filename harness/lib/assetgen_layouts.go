package lib

// GenLayout is one entry of the standard catalogue of generated layouts.
type GenLayout struct {
	Asset GenAsset
	// Class: "ok" (admissible by the rule and well-formed), "bad" (must be left out by consolidateAsset),
	// "edge" (the rule as written in asset.go lets it through, or half through, although the layout is not a
	// consistent loop; see Note).
	Class string
	Note  string
}

// GenCatalogue returns the standard layouts: N = 1..7 segments; uniform, alternating and irregular durations;
// timescales 1000, 10000, 12800, 15360, 24000, 30000, 48000, 60000, 90000; 1001-based frame durations; audio on
// the same or on a different grid than the video and with a loop a few frames shorter/longer; sub-second
// segments; $Number$ and SegmentTimeline/$Time$ VoD manifests; stpp and thumbnails; plus deliberately
// inadmissible and borderline ones. All names start with "g_" (ok), "x_" (edge) or "bad_".
func GenCatalogue() []GenLayout {
	v2s := UniformDurs(4, 180000)
	alt := AlternatingDurs(4, 360000, 720000)
	irr := FrameDurs(512, 50, 25, 75, 48, 52, 10, 40) // 300 frames of 40 ms = 12 s
	ntsc := UniformDurs(4, 60*1001)                   // 2.002 s
	sub := UniformDurs(5, 30*256)                     // 0.5 s at 60 fps, timescale 15360
	tl := func(r GenRep) GenRep { r.TimelineMPD = true; return r }
	var out []GenLayout
	add := func(class, note string, name string, reps ...GenRep) {
		out = append(out, GenLayout{Asset: GenAsset{Name: name, Reps: reps}, Class: class, Note: note})
	}

	add("ok", "4 x 2 s, 30 fps, timescale 90000; AAC on the following grid", "g_u2s_90000",
		VideoRep("V300", 90000, 3000, v2s),
		AudioRep("A48", 1024, AudioDursFollowing(v2s, 90000, 48000, 1024, 0)))

	add("ok", "alternating 4 s / 8 s, SegmentTimeline + $Time$ VoD manifest", "g_alt48_tl",
		tl(VideoRep("V300", 90000, 3000, alt)),
		tl(AudioRep("A48", 1024, AudioDursFollowing(alt, 90000, 48000, 1024, 0))))

	sb := StppRep("sub_en", 1000, UniformDurs(4, 2000))
	sb.BothSizes = true
	sc := StppRep("sub_sv", 1000, UniformDurs(4, 2000))
	sc.CompactTrun = true
	sa := StppRep("sub_fi", 1000, UniformDurs(4, 2000))
	sa.TTMLApos = true
	add("ok", "stpp subtitles whose sample size is in tfhd and trun (sub_en) or only in tfhd (sub_sv); begin/end quoted with apostrophes (sub_fi)", "g_stpp_sizes",
		VideoRep("V300", 90000, 3000, v2s), sb, sc, sa)

	add("ok", "thumbnails listed before the subtitles in the VoD MPD (video, audio, thumbnails, stpp)", "g_thumbs_first",
		VideoRep("V300", 90000, 3000, v2s),
		AudioRep("A48", 1024, AudioDursFollowing(v2s, 90000, 48000, 1024, 0)),
		ThumbsRep("thumbs", 1, 4, 2),
		StppRep("sub_en", 1000, UniformDurs(4, 2000)))

	// a frame rate that changes between segments: the common sample duration of a segment is in its tfhd only
	vfr := VideoRep("V300", 90000, 3600, []uint64{180000, 180000, 180000, 90000})
	vfr.SegSampleDurs = []uint32{0, 0, 0, 1800}
	vfr.CompactTrun = true
	add("ok", "2 s + 2 s + 2 s at 25 fps and a last segment of 1 s at 50 fps; sample durations only as tfhd defaults (trun without per-sample durations)", "g_vfr_last",
		vfr, StppRep("sub_en", 1000, []uint64{2000, 2000, 2000, 1000}))
	vfr2 := VideoRep("V300", 90000, 1800, []uint64{90000, 180000, 180000, 180000})
	vfr2.SegSampleDurs = []uint32{0, 3600, 3600, 3600}
	vfr2.CompactTrun = true
	add("ok", "first segment 1 s at 50 fps, then 3 x 2 s at 25 fps; tfhd defaults only", "g_vfr_first", vfr2)

	// a loop that is no whole number of seconds with stpp subtitles: the TTML offset of every odd wrap has a fraction
	add("ok", "3 x 2.5 s video (7.5 s loop) with stpp subtitles on the same grid", "g_stpp_frac",
		VideoRep("V300", 90000, 3000, UniformDurs(3, 225000)), StppRep("sub_en", 1000, UniformDurs(3, 2500)))

	v10m := UniformDurs(4, 20000000)
	add("ok", "timescale 10 MHz (Smooth-Streaming style), 4 x 2 s at 25 fps, $Time$: products with 1000 leave 64 bits after 58 years", "g_10mhz_tl",
		tl(VideoRep("V1", 10000000, 400000, v10m)),
		tl(AudioRep("A48", 1024, AudioDursFollowing(v10m, 10000000, 48000, 1024, 0))))

	// representations with different numbers of segments per loop in one asset
	v4s := UniformDurs(2, 360000)
	add("ok", "2 x 4 s video, 4 x 2 s stpp subtitles, 8 x 1 s thumbnails, audio following the video", "g_mixed_n",
		VideoRep("V1", 90000, 3000, v4s),
		AudioRep("A48", 1024, AudioDursFollowing(v4s, 90000, 48000, 1024, 0)),
		StppRep("sub_en", 1000, UniformDurs(4, 2000)),
		ThumbsRep("thumbs", 1, 8, 1))
	add("ok", "6 x 1 s video (timescale 12800) next to 3 x 2 s video (90000), 2 x 3 s subtitles, 3 x 2 s thumbnails", "g_mixed_n2",
		VideoRep("V1", 12800, 512, UniformDurs(6, 12800)),
		VideoRep("V2", 90000, 3000, UniformDurs(3, 180000)),
		StppRep("sub_en", 1000, UniformDurs(2, 3000)),
		ThumbsRep("thumbs", 1, 3, 2))

	avgf := FrameDurs(3000, 60, 30, 90, 60) // 2 s, 1 s, 3 s, 2 s
	add("ok", "varying durations 2 s / 1 s / 3 s / 2 s whose first segment has exactly the mean duration, $Time$", "g_avgfirst_tl",
		tl(VideoRep("V300", 90000, 3000, avgf)),
		tl(AudioRep("A48", 1024, AudioDursFollowing(avgf, 90000, 48000, 1024, 0))))

	add("ok", "7 irregular segments, timescale 12800 (25 fps); audio on its own 3-segment grid", "g_irr7_12800",
		VideoRep("V1", 12800, 512, irr),
		AudioRep("A48", 1024, FrameDurs(1024, 200, 200, 163)))

	add("ok", "29.97 fps (30000/1001), 4 x 2.002 s, $Time$; audio loop 2 frames shorter than the video loop", "g_ntsc_30000_tl",
		tl(VideoRep("V1", 30000, 1001, ntsc)),
		tl(AudioRep("A48", 1024, AudioDursFollowing(ntsc, 30000, 48000, 1024, -2))))

	add("ok", "three video representations 23.976/29.97/59.94 fps at timescales 24000/30000/60000, loop 8.008 s", "g_ntsc_multi",
		VideoRep("V24", 24000, 1001, UniformDurs(4, 48*1001)),
		VideoRep("V30", 30000, 1001, UniformDurs(4, 60*1001)),
		VideoRep("V60", 60000, 1001, UniformDurs(4, 120*1001)))

	add("ok", "sub-second segments: 5 x 0.5 s, timescale 15360; audio loop 3 frames longer than the video loop", "g_sub_15360",
		VideoRep("V1", 15360, 256, sub),
		AudioRep("A48", 1024, AudioDursFollowing(sub, 15360, 48000, 1024, 3)))

	add("ok", "N = 1: a single 2 s segment, timescale 1000; audio 2 frames longer", "g_one_1000",
		VideoRep("V1", 1000, 40, UniformDurs(1, 2000)),
		AudioRep("A48", 1024, AudioDursFollowing(UniformDurs(1, 2000), 1000, 48000, 1024, 2)))

	v10k := FrameDurs(400, 25, 50, 25)
	v10 := VideoRep("V1", 10000, 400, v10k)
	v10.StartNumber = 7
	a10 := AudioRep("A48", 1024, AudioDursFollowing(v10k, 10000, 48000, 1024, 0))
	a10.StartNumber = 7
	add("ok", "timescale 10000, 1 s / 2 s / 1 s, VoD files numbered from 7", "g_ts10000_snr7", v10, a10)

	add("ok", "video + audio + stpp subtitles (timescale 1000) + thumbnails", "g_stpp_thumbs",
		VideoRep("V300", 90000, 3000, v2s),
		AudioRep("A48", 1024, AudioDursFollowing(v2s, 90000, 48000, 1024, 0)),
		StppRep("sub_en", 1000, UniformDurs(4, 2000)),
		ThumbsRep("thumbs", 1, 4, 2))

	v8 := UniformDurs(2, 192*3750)
	add("ok", "2 x 8 s at 24 fps, AC-3 audio (1536-sample frames)", "g_ac3_8s",
		VideoRep("V1", 90000, 3750, v8),
		AudioRep("A1", 1536, AudioDursFollowing(v8, 90000, 48000, 1536, 0)))

	add("ok", "audio only, 3 x 1.024 s (the audio representation is the reference)", "g_audio_only",
		AudioRep("A48", 1024, FrameDurs(1024, 48, 48, 48)))

	v60 := tl(VideoRep("V1", 60000, 1000, []uint64{60000, 180000}))
	v60.CompactTrun = true
	v60.Frags = 3
	a60 := tl(AudioRep("A48", 1024, AudioDursFollowing([]uint64{60000, 180000}, 60000, 48000, 1024, 0)))
	a60.CompactTrun = true
	add("ok", "timescale 60000, 1 s + 3 s, 3 fragments per segment, tfhd defaults instead of per-sample trun values", "g_60000_frag_tl", v60, a60)

	vst := tl(VideoRep("V1", 90000, 3000, UniformDurs(3, 180000)))
	vst.StartTime = 900000
	add("edge", "first VoD segment starts at decode time 10 s instead of 0: admitted; all served times carry the 10 s offset", "x_starttime_tl", vst)

	add("edge", "V2 is 2035.37 ms, the reference V1 2035 ms: consolidateAsset compares truncated ms, so V2 is admitted and "+
		"looped with 61050 ticks although it is 61061 ticks long (11 ticks overlap at every wrap)", "x_near_disagree",
		VideoRep("V1", 1000, 5, UniformDurs(1, 2035)),
		VideoRep("V2", 30000, 1001, UniformDurs(1, 61*1001)))

	aj := AudioRep("A48", 1024, AudioDursFollowing(v2s, 90000, 48000, 1024, 0))
	aj.Jitter = true
	add("edge", "audio without constant sample duration: loadAsset returns its error only after registering the representation", "x_audio_jitter",
		VideoRep("V300", 90000, 3000, v2s), aj)

	add("edge", "audio without constant sample duration listed before the video in the MPD: loadAsset stops at the audio, the video is never loaded", "x_audio_jitter_first",
		aj, VideoRep("V300", 90000, 3000, v2s))

	vg := tl(VideoRep("V1", 90000, 3000, v2s))
	vg.Gaps = []uint64{0, 0, 90000, 0} // 1 s hole before the third segment; span 9 s
	add("edge", "$Time$ layout with a 1 s hole declared by S@t before the third segment: the loaded segment table is not contiguous", "x_gap_tl", vg)

	vgn := VideoRep("V1", 90000, 3000, v2s)
	vgn.Gaps = []uint64{0, 0, 90000, 0}
	add("edge", "$Number$ layout with a 1 s hole before the third file: the loader stretches segment 2 over the hole (EndTime = next StartTime)", "x_gap_nr", vgn)

	tiny := FrameDurs(256, 1, 1, 1, 1, 1, 55)
	add("edge", "60 fps video with five one-frame segments (16.7 ms, shorter than an audio frame): the fifth lies inside one audio frame, "+
		"so its audio segment is empty", "x_tiny_seg",
		VideoRep("V1", 15360, 256, tiny),
		AudioRep("A48", 1024, AudioDursFollowing(tiny, 15360, 48000, 1024, 0)))

	add("edge", "subtitle track 9 s, video loop 8 s: only representations of the reference's content type are compared", "x_text_longer",
		VideoRep("V300", 90000, 3000, v2s),
		StppRep("sub_en", 1000, UniformDurs(3, 3000)))

	add("bad", "29.97 fps, 59 frames = 1968.633 ms: loop not a whole number of ms", "bad_ms_ntsc",
		VideoRep("V1", 30000, 1001, UniformDurs(1, 59*1001)))

	add("bad", "timescale 89910 with 3000-tick frames, 4 x 60 frames = 720000 ticks = 8008.008 ms: loop not a whole number of ms", "bad_ms_89910",
		VideoRep("V1", 89910, 3000, UniformDurs(4, 180000)))

	add("bad", "two video representations of 8 s and 6 s", "bad_disagree",
		VideoRep("V1", 90000, 3000, v2s),
		VideoRep("V2", 90000, 3000, UniformDurs(3, 180000)))

	add("bad", "two video representations of 8000 ms and 8040 ms (one frame more)", "bad_disagree_1frame",
		VideoRep("V1", 1000, 40, UniformDurs(4, 2000)),
		VideoRep("V2", 1000, 40, []uint64{2000, 2000, 2000, 2040}))

	add("bad", "audio only, 94 frames = 2005.33 ms: loop not a whole number of ms", "bad_audio_only_ms",
		AudioRep("A48", 1024, FrameDurs(1024, 94)))

	return out
}

// ---- random admissible layouts ---------------------------------------------------------------------------------

// GenRates are the (timescale, video frame duration) pairs RandGenAsset draws from.
var GenRates = [][2]uint32{
	{1000, 40}, {1000, 20}, {10000, 400}, {10000, 200}, {12800, 512}, {12800, 256}, {15360, 256}, {15360, 512},
	{24000, 1000}, {24000, 1001}, {30000, 1000}, {30000, 1001}, {48000, 1920}, {60000, 1000}, {60000, 1001},
	{90000, 3000}, {90000, 3600}, {90000, 3750}, {90000, 3003}, {90000, 1500},
}

// RandGenOpts restricts RandGenAsset.
type RandGenOpts struct {
	NoAudio      bool // video only
	AudioOwnGrid bool // allow an audio segment grid unrelated to the video grid (default: audio follows the video grid)
	Text         bool // allow an stpp representation (same grid as the video)
	Thumbs       bool // allow thumbnails (uniform layouts only)
	MaxSegFrames int  // upper bound of video frames per segment (default 120)
	MinSegFrames int  // lower bound of video frames per segment (default 5; 1 gives segments shorter than an audio frame)
}

type intn interface{ Intn(n int) int }

func gcd64(a, b uint64) uint64 {
	for b != 0 {
		a, b = b, a%b
	}
	return a
}

// RandGenAsset draws a layout that the admission rule accepts by construction: N = 1..7 segments, uniform /
// alternating / irregular segment lengths (sub-second to a few seconds), a (timescale, frame duration) pair
// from GenRates, loop a whole number of ms; optionally a second video representation on another timescale with
// exactly the same duration, audio (AAC or AC-3) following the video grid with a loop up to 3 frames
// shorter/longer (or on its own grid), stpp, thumbnails; $Number$ or SegmentTimeline/$Time$ VoD manifest.
// rng is *math/rand.Rand (or anything with Intn).
func RandGenAsset(rng intn, name string, o RandGenOpts) GenAsset {
	maxF := o.MaxSegFrames
	if maxF <= 0 {
		maxF = 120
	}
	minF := o.MinSegFrames
	if minF <= 0 {
		minF = 5
	}
	if maxF < minF {
		maxF = minF
	}
	rate := GenRates[rng.Intn(len(GenRates))]
	ts, sd := rate[0], rate[1]
	// q: the number of frames must be a multiple of q for the loop to be a whole number of ms
	q := int(uint64(ts) / gcd64(uint64(ts), uint64(sd)*1000))
	n := 1 + rng.Intn(7)
	frames := make([]int, n)
	shape := rng.Intn(3)
	switch shape {
	case 0: // uniform
		f := 0
		for try := 0; try < 60; try++ {
			c := minF + rng.Intn(maxF-minF+1)
			if (c*n)%q == 0 {
				f = c
				break
			}
		}
		if f == 0 {
			f = q * (1 + rng.Intn(3))
		}
		for i := range frames {
			frames[i] = f
		}
	case 1: // alternating a, b, a, b ...; the last one absorbs the ms condition
		a, b := minF+rng.Intn(maxF-minF+1), minF+rng.Intn(maxF-minF+1)
		for i := range frames {
			frames[i] = a
			if i%2 == 1 {
				frames[i] = b
			}
		}
	default:
		for i := range frames {
			frames[i] = minF + rng.Intn(maxF-minF+1)
		}
	}
	tot := 0
	for _, f := range frames {
		tot += f
	}
	frames[n-1] += (q - tot%q) % q
	durs := FrameDurs(sd, frames...)
	timeline := rng.Intn(2) == 0
	v := VideoRep("V1", ts, sd, durs)
	v.TimelineMPD = timeline
	v.CompactTrun = rng.Intn(4) == 0
	v.Frags = 1 + rng.Intn(3)
	if !timeline && rng.Intn(3) == 0 {
		v.StartNumber = 1 + rng.Intn(20)
	}
	a := GenAsset{Name: name, Reps: []GenRep{v}}
	var loop uint64
	for _, d := range durs {
		loop += d
	}
	if rng.Intn(3) == 0 { // second video representation, other timescale, identical duration if expressible
		r2 := GenRates[rng.Intn(len(GenRates))]
		ts2, sd2 := uint64(r2[0]), uint64(r2[1])
		if loop*ts2%uint64(ts) == 0 && (loop*ts2/uint64(ts))%sd2 == 0 {
			totF := int(loop * ts2 / uint64(ts) / sd2)
			n2 := 1 + rng.Intn(7)
			if n2 > totF {
				n2 = totF
			}
			fr := make([]int, n2)
			rest := totF - n2
			for i := range fr {
				fr[i] = 1
				if i == n2-1 {
					fr[i] += rest
					break
				}
				x := rng.Intn(2*(rest/(n2-i)) + 1)
				if x > rest {
					x = rest
				}
				fr[i] += x
				rest -= x
			}
			v2 := VideoRep("V2", r2[0], r2[1], FrameDurs(r2[1], fr...))
			v2.TimelineMPD = timeline
			a.Reps = append(a.Reps, v2)
		}
	}
	if !o.NoAudio && rng.Intn(5) != 0 {
		fd := uint32(1024)
		if rng.Intn(4) == 0 {
			fd = 1536
		}
		delta := rng.Intn(7) - 3
		ad := AudioDursFollowing(durs, ts, 48000, fd, delta)
		if o.AudioOwnGrid && rng.Intn(3) == 0 {
			var totA uint64
			for _, d := range ad {
				totA += d
			}
			totF := int(totA / uint64(fd))
			m := 1 + rng.Intn(n+1)
			if m > totF {
				m = totF
			}
			fr := make([]int, m)
			for i := range fr {
				fr[i] = totF / m
			}
			fr[m-1] += totF - totF/m*m
			ad = FrameDurs(fd, fr...)
		}
		au := AudioRep("A1", fd, ad)
		au.TimelineMPD = timeline
		au.StartNumber = v.StartNumber
		au.CompactTrun = rng.Intn(4) == 0
		a.Reps = append(a.Reps, au)
	}
	if o.Text && rng.Intn(3) == 0 {
		tx := StppRep("T1", ts, durs)
		tx.TimelineMPD = timeline
		tx.StartNumber = v.StartNumber
		a.Reps = append(a.Reps, tx)
	}
	if o.Thumbs && shape == 0 && frames[n-1] == frames[0] && rng.Intn(3) == 0 {
		a.Reps = append(a.Reps, ThumbsRep("thumbs", ts, n, durs[0]))
	}
	return a
}
