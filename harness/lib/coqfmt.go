package lib

import (
	"fmt"
	"strings"
)

// Helpers that print Go values as Coq terms (numbers always as Z, never nat, except small indices).

func Zs(v int64) string {
	if v < 0 {
		return fmt.Sprintf("(%d)", v)
	}
	return fmt.Sprintf("%d", v)
}

func Zlist64(l []int64) string {
	var sb strings.Builder
	sb.WriteString("[")
	for i, v := range l {
		if i > 0 {
			sb.WriteString(";")
		}
		sb.WriteString(Zs(v))
	}
	sb.WriteString("]")
	return sb.String()
}

func ZlistInt(l []int) string {
	m := make([]int64, len(l))
	for i, v := range l {
		m[i] = int64(v)
	}
	return Zlist64(m)
}

func Zbytes(b []byte) string {
	var sb strings.Builder
	sb.WriteString("[")
	for i, v := range b {
		if i > 0 {
			sb.WriteString(";")
		}
		fmt.Fprintf(&sb, "%d", v)
	}
	sb.WriteString("]")
	return sb.String()
}

func Cbool(b bool) string {
	if b {
		return "true"
	}
	return "false"
}

func CoqList(items []string) string {
	return "[" + strings.Join(items, ";\n ") + "]"
}

// coqString quotes a Go string as a Coq string literal (ASCII only; others are replaced by '?').
func CoqString(s string) string {
	var sb strings.Builder
	sb.WriteString("\"")
	for _, r := range s {
		switch {
		case r == '"':
			sb.WriteString("\"\"")
		case r < 32 || r > 126:
			sb.WriteString("?")
		default:
			sb.WriteRune(r)
		}
	}
	sb.WriteString("\"")
	return sb.String()
}

// casesFile wraps case terms into a Coq file that prints the ids of mismatching cases.
// The printed markers are parsed by the driver.
func CasesFile(imports string, caseType string, defs string, terms []string, viewFn string) string {
	var sb strings.Builder
	sb.WriteString(imports)
	sb.WriteString("\nOpen Scope Z_scope.\n")
	sb.WriteString(defs)
	fmt.Fprintf(&sb, "Definition cases : list %s :=\n %s.\n", caseType, CoqList(terms))
	sb.WriteString("Definition M := Eval vm_compute in mismatches cases.\nPrint M.\n")
	if viewFn != "" {
		fmt.Fprintf(&sb, "Definition V := Eval vm_compute in map (fun c => (c_id c, %s c)) (filter (fun c => existsb (Z.eqb (c_id c)) (firstn 3 M)) cases).\nPrint V.\n", viewFn)
	}
	return sb.String()
}
