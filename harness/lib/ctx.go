// corr runs the implementation built from /repo's current tree on generated inputs, writes the
// inputs and observations as Coq terms (cases_*.v) for the model to be evaluated on, evaluates the
// property's oracle directly on the observations, and writes result.json for the driver.
package lib

import (
	"encoding/json"
	"flag"
	"fmt"
	"os"
	"path/filepath"
)

type Failure struct {
	Case  string `json:"case"`
	Key   string `json:"key"`
	What  string `json:"what"`
	Input any    `json:"input"`
}

type Result struct {
	Property           string         `json:"property"`
	Tier               string         `json:"tier"`
	Seed               int64          `json:"seed"`
	Evaluations        int            `json:"evaluations"`
	DistinctNontrivial int            `json:"distinct_nontrivial"`
	Rule               string         `json:"rule"`
	Samples            []any          `json:"samples"`
	Distribution       map[string]int `json:"distribution"`
	OracleFailures     []Failure      `json:"oracle_failures"`
	CaseFiles          []string       `json:"case_files"`
	Notes              []string       `json:"notes"`
	// Replay inputs per case id, so that a mismatch reported by Coq can be turned into a replay.
	Inputs map[string]any `json:"inputs"`
	// Number of cases handed to the Coq model when it differs from Evaluations (the oracle may
	// look at more observations than are replayed in Coq). 0 = same as Evaluations.
	ModelCases int `json:"model_cases,omitempty"`
}

type Ctx struct {
	Prop   string
	Tier   string
	Seed   int64
	Out    string
	Replay string
	Res    *Result
}

func (c *Ctx) Thorough() bool { return c.Tier == "thorough" }

func (c *Ctx) Count(key string) { c.Res.Distribution[key]++ }

func (c *Ctx) Fail(caseID, key, what string, input any) {
	c.Res.OracleFailures = append(c.Res.OracleFailures, Failure{caseID, key, what, input})
}

func (c *Ctx) Sample(s any) {
	if len(c.Res.Samples) < 5 {
		c.Res.Samples = append(c.Res.Samples, s)
	}
}

// WriteCases writes a Coq file in the output directory and registers it.
func (c *Ctx) WriteCases(name string, content string) {
	p := filepath.Join(c.Out, name)
	if err := os.WriteFile(p, []byte(content), 0o644); err != nil {
		panic(err)
	}
	c.Res.CaseFiles = append(c.Res.CaseFiles, p)
}

// Main is the entry point shared by the per-property harness binaries (cmd/cNN).
func Main(id string, f func(c *Ctx) error) {
	prop := flag.String("prop", id, "property id")
	tier := flag.String("tier", "quick", "quick|thorough")
	seed := flag.Int64("seed", 1, "seed")
	out := flag.String("out", "", "output directory")
	replay := flag.String("replay", "", "replay file")
	flag.Parse()
	if err := os.MkdirAll(*out, 0o755); err != nil {
		panic(err)
	}
	ctx := &Ctx{Prop: *prop, Tier: *tier, Seed: *seed, Out: *out, Replay: *replay,
		Res: &Result{Property: *prop, Tier: *tier, Seed: *seed, Distribution: map[string]int{},
			Inputs: map[string]any{}, OracleFailures: []Failure{}, Samples: []any{}, CaseFiles: []string{}, Notes: []string{}}}
	if err := f(ctx); err != nil {
		fmt.Fprintf(os.Stderr, "harness error: %v\n", err)
		os.Exit(3)
	}
	data, _ := json.MarshalIndent(ctx.Res, "", " ")
	if err := os.WriteFile(filepath.Join(*out, "result.json"), data, 0o644); err != nil {
		panic(err)
	}
}
