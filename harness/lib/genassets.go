package lib

import (
	"crypto/sha256"
	"encoding/hex"
	"fmt"
	"os"
	"path/filepath"
)

// ScratchDir creates /verif/.scratch/<pid>-<name> (removed by the returned function).
func ScratchDir(name string) (string, func(), error) {
	root := os.Getenv("VERIF_SCRATCH")
	if root == "" {
		root = "/verif/.scratch"
	}
	d := filepath.Join(root, fmt.Sprintf("%d-%s", os.Getpid(), name))
	if err := os.MkdirAll(d, 0o755); err != nil {
		return "", nil, err
	}
	return d, func() { os.RemoveAll(d) }, nil
}

// LoadGenAsset parses a generated asset (written by WriteAsset below vodRoot) with the harness's own
// parser into the form the timeline harnesses use.
func LoadGenAsset(vodRoot string, ga GenAsset) (*TLAsset, error) {
	a := &TLAsset{Path: ga.Name, MPD: "Manifest.mpd"}
	if ga.MPDName != "" {
		a.MPD = ga.MPDName
	}
	for _, gr := range ga.Reps {
		dir := filepath.Join(vodRoot, ga.Name, gr.ID)
		if gr.Kind == "thumbs" {
			// <nr>.jpg files of equal duration
			entries, err := os.ReadDir(dir)
			if err != nil {
				return nil, err
			}
			vr := &VodRep{ID: gr.ID, Dir: dir, Timescale: int64(gr.Timescale)}
			for k := 0; k < gr.N() && k < len(entries); k++ {
				data, err := os.ReadFile(filepath.Join(dir, filepath.Base(gr.FileName(k))))
				if err != nil {
					return nil, err
				}
				vr.Segs = append(vr.Segs, VodSeg{File: filepath.Base(gr.FileName(k)), Start: int64(gr.Start(k)), End: int64(gr.End(k)), Nr: int64(gr.FirstNr() + k), Payload: sha256hex(data)})
			}
			a.Reps = append(a.Reps, &TLRep{VodRep: vr, Kind: "image", Ext: ".jpg"})
			continue
		}
		vr, trex, err := LoadVodRep(dir, gr.ID)
		if err != nil {
			return nil, fmt.Errorf("%s: %w", dir, err)
		}
		r := &TLRep{VodRep: vr, Trex: trex, Ext: ".m4s"}
		switch gr.Kind {
		case "video":
			r.Kind = "video"
		case "audio":
			r.Kind = "audio"
		case "stpp":
			r.Kind, r.Stpp = "text", true
		}
		a.Reps = append(a.Reps, r)
	}
	ref := a.Ref()
	if ref == nil {
		// audio-only asset: the first audio representation is the reference
		for _, r := range a.Reps {
			if r.Kind == "audio" {
				ref = r
				break
			}
		}
	}
	if ref == nil {
		return nil, fmt.Errorf("%s: no reference representation", ga.Name)
	}
	a.RefTS, a.RefDur = ref.Timescale, ref.Duration()
	a.LoopMS = 1000 * ref.Duration() / ref.Timescale
	return a, nil
}

// GenSetup writes the given layouts below a scratch vodroot, starts a server over it and returns the
// parsed assets (in the order given) together with a cleanup function.
func GenSetup(name string, layouts []GenAsset) ([]*TLAsset, *Livesim, func(), error) {
	root, cleanup, err := ScratchDir(name)
	if err != nil {
		return nil, nil, nil, err
	}
	var out []*TLAsset
	for _, ga := range layouts {
		if err := WriteAsset(root, ga); err != nil {
			cleanup()
			return nil, nil, nil, fmt.Errorf("write %s: %w", ga.Name, err)
		}
		a, err := LoadGenAsset(root, ga)
		if err != nil {
			cleanup()
			return nil, nil, nil, err
		}
		out = append(out, a)
	}
	ls, err := NewLivesim(root, nil)
	if err != nil {
		cleanup()
		return nil, nil, nil, err
	}
	return out, ls, cleanup, nil
}

func sha256hex(b []byte) string {
	h := sha256.Sum256(b)
	return hex.EncodeToString(h[:])
}
