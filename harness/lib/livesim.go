package lib

import (
	"context"
	"fmt"
	"io"
	"log/slog"
	"net/http"
	"net/http/httptest"
	"runtime"
	"strings"

	"github.com/Dash-Industry-Forum/livesim2/cmd/livesim2/app"
)

// TestVodRoot is the bundled VoD test content of the repository.
const TestVodRoot = "/repo/cmd/livesim2/app/testdata/assets"

// Livesim is an in-process livesim2 server built from /repo's current tree.
type Livesim struct {
	Srv *app.Server
	Cfg *app.ServerConfig
}

// QuietLogs discards the server's log output.
func QuietLogs() {
	slog.SetDefault(slog.New(slog.NewTextHandler(io.Discard, &slog.HandlerOptions{Level: slog.LevelError + 10})))
}

// NewLivesim sets up a server over vodRoot. mod may adjust the configuration.
func NewLivesim(vodRoot string, mod func(cfg *app.ServerConfig)) (*Livesim, error) {
	QuietLogs()
	cfg := app.DefaultConfig
	cfg.VodRoot = vodRoot
	cfg.RepDataRoot = ""
	cfg.WriteRepData = false
	cfg.TimeoutS = 0
	cfg.LogLevel = "ERROR"
	if mod != nil {
		mod(&cfg)
	}
	srv, err := app.SetupServer(context.Background(), &cfg)
	if err != nil {
		return nil, err
	}
	return &Livesim{Srv: srv, Cfg: &cfg}, nil
}

// Resp is the projection of an HTTP response used by the harness.
type Resp struct {
	Status int
	Header http.Header
	Body   []byte
	// Panic is non-empty when the handler panicked: "<function>: <value>" of the innermost
	// frame inside the livesim2 module.
	Panic string
}

// panicSite returns the innermost livesim2 function on the stack of a recovered panic.
func panicSite() string {
	pcs := make([]uintptr, 64)
	n := runtime.Callers(3, pcs)
	frames := runtime.CallersFrames(pcs[:n])
	for {
		fr, more := frames.Next()
		if strings.Contains(fr.Function, "Dash-Industry-Forum/livesim2") {
			f := fr.Function
			if i := strings.LastIndex(f, "/"); i >= 0 {
				f = f[i+1:]
			}
			return f
		}
		if !more {
			return "?"
		}
	}
}

func serve(h http.Handler, method, url string, body io.Reader, hdr map[string]string) (resp Resp) {
	req := httptest.NewRequest(method, url, body)
	for k, v := range hdr {
		req.Header.Set(k, v)
	}
	rec := httptest.NewRecorder()
	defer func() {
		if r := recover(); r != nil {
			resp = Resp{Status: 0, Panic: fmt.Sprintf("%s: %v", panicSite(), r)}
		}
	}()
	h.ServeHTTP(rec, req)
	return Resp{Status: rec.Code, Header: rec.Header(), Body: rec.Body.Bytes()}
}

// Get issues a GET through the full router (with the Recoverer middleware, as deployed).
func (l *Livesim) Get(url string) Resp { return serve(l.Srv.Router, "GET", url, nil, nil) }

// GetRaw issues a GET to the /livesim2 sub-router without the Recoverer middleware, so that a
// panic in the handler is observed together with its site. url must start with /livesim2/.
func (l *Livesim) GetRaw(url string) Resp { return serve(l.Srv.LiveRouter, "GET", url, nil, nil) }

// DoRaw issues a request with any method to the /livesim2 sub-router (no Recoverer middleware), like GetRaw.
func (l *Livesim) DoRaw(method, url string) Resp { return serve(l.Srv.LiveRouter, method, url, nil, nil) }

// Do issues an arbitrary request through the full router.
func (l *Livesim) Do(method, url string, body io.Reader, hdr map[string]string) Resp {
	return serve(l.Srv.Router, method, url, body, hdr)
}
