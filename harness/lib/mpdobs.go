package lib

import (
	"fmt"
	"strings"
	"time"

	m "github.com/Eyevinn/dash-mpd/mpd"
)

// TD is one expanded SegmentTimeline entry.
type TD struct {
	T int64 `json:"t"`
	D int64 `json:"d"`
}

// SObs is one <S> element: explicit t (or -1), d, r.
type SObs struct {
	T int64
	D int64
	R int64
}

// ASObs is the projection of an AdaptationSet (its SegmentTemplate) of a live MPD.
type ASObs struct {
	ContentType string
	RepIDs      []string
	Media       string
	Init        string
	Timescale   int64
	HasStartNr  bool
	StartNumber int64
	HasDuration bool
	Duration    int64
	HasTimeline bool
	Entries     []SObs
	Timeline    []TD // expanded
	PTO         int64
	HasATO      bool
	AtoInf      bool
	AtoS        float64
	ATC         *bool
	Continuity  bool // period-continuity SupplementalProperty present
	InbandScte  bool
	BaseURLs    []string
}

type PeriodObs struct {
	ID      string
	StartMS int64 // -1 if absent
	AS      []*ASObs
	BaseURL []string
}

// MPDObs is the projection of a live MPD response.
type MPDObs struct {
	Status        int
	Panic         string
	Body          []byte
	Type          string
	ASTms         int64
	PublishMS     int64
	PublishStr    string
	TSBDms        int64 // -1 if absent
	MUPms         int64
	MPDDurMS      int64 // mediaPresentationDuration, -1 if absent
	Periods       []*PeriodObs
	PatchLocation string
	ID            string
	Err           string
}

func dtToMS(s string) (int64, error) {
	if s == "" {
		return -1, nil
	}
	t, err := time.Parse(time.RFC3339Nano, s)
	if err != nil {
		return 0, err
	}
	return t.UnixMilli(), nil
}

func durMS(d *m.Duration) int64 {
	if d == nil {
		return -1
	}
	return int64(time.Duration(*d) / time.Millisecond)
}

// ExpandS expands <S> elements into (t, d) pairs.
func ExpandS(l []*m.S) ([]SObs, []TD) {
	var es []SObs
	var out []TD
	var t int64
	for _, s := range l {
		e := SObs{T: -1, D: int64(s.D), R: int64(s.R)}
		if s.T != nil {
			t = int64(*s.T)
			e.T = t
		}
		es = append(es, e)
		for j := 0; j <= s.R; j++ {
			out = append(out, TD{t, int64(s.D)})
			t += int64(s.D)
		}
	}
	return es, out
}

// ObserveMPD parses an MPD response into its projection.
func ObserveMPD(resp Resp) *MPDObs {
	o := &MPDObs{Status: resp.Status, Panic: resp.Panic, Body: resp.Body, TSBDms: -1, MPDDurMS: -1}
	if resp.Panic != "" {
		o.Status = 0
		return o
	}
	if resp.Status != 200 {
		o.Err = strings.TrimSpace(string(resp.Body))
		return o
	}
	mp, err := m.MPDFromBytes(resp.Body)
	if err != nil {
		o.Err = "unparsable MPD: " + err.Error()
		o.Status = -1
		return o
	}
	if mp.Type != nil {
		o.Type = *mp.Type
	}
	o.ID = mp.Id
	if o.ASTms, err = dtToMS(string(mp.AvailabilityStartTime)); err != nil {
		o.Err = "availabilityStartTime: " + err.Error()
	}
	o.PublishStr = string(mp.PublishTime)
	if o.PublishMS, err = dtToMS(string(mp.PublishTime)); err != nil {
		o.Err = "publishTime: " + err.Error()
	}
	o.TSBDms = durMS(mp.TimeShiftBufferDepth)
	o.MUPms = durMS(mp.MinimumUpdatePeriod)
	o.MPDDurMS = durMS(mp.MediaPresentationDuration)
	if len(mp.PatchLocation) > 0 {
		o.PatchLocation = string(mp.PatchLocation[0].Value)
	}
	for _, p := range mp.Periods {
		po := &PeriodObs{ID: p.Id, StartMS: durMS(p.Start)}
		for _, b := range p.BaseURLs {
			po.BaseURL = append(po.BaseURL, string(b.Value))
		}
		for _, a := range p.AdaptationSets {
			ao := &ASObs{ContentType: string(a.ContentType), Timescale: 1}
			for _, r := range a.Representations {
				ao.RepIDs = append(ao.RepIDs, r.Id)
			}
			for _, sp := range a.SupplementalProperties {
				if strings.Contains(string(sp.SchemeIdUri), "period-continuity") {
					ao.Continuity = true
				}
			}
			for _, ev := range a.InbandEventStreams {
				if strings.Contains(string(ev.SchemeIdUri), "scte35") {
					ao.InbandScte = true
				}
			}
			st := a.SegmentTemplate
			if st != nil {
				ao.Media, ao.Init = st.Media, st.Initialization
				if st.Timescale != nil {
					ao.Timescale = int64(*st.Timescale)
				}
				if st.StartNumber != nil {
					ao.HasStartNr, ao.StartNumber = true, int64(*st.StartNumber)
				}
				if st.Duration != nil {
					ao.HasDuration, ao.Duration = true, int64(*st.Duration)
				}
				if st.PresentationTimeOffset != nil {
					ao.PTO = int64(*st.PresentationTimeOffset)
				}
				if st.SegmentTimeline != nil {
					ao.HasTimeline = true
					ao.Entries, ao.Timeline = ExpandS(st.SegmentTimeline.S)
				}
				if float64(st.AvailabilityTimeOffset) != 0 {
					ao.HasATO = true
					ao.AtoS = float64(st.AvailabilityTimeOffset)
					if ao.AtoS > 1e300 {
						ao.AtoInf = true
					}
				}
				ao.ATC = st.AvailabilityTimeComplete
			}
			po.AS = append(po.AS, ao)
		}
		o.Periods = append(o.Periods, po)
	}
	return o
}

// FetchMPD requests an MPD through the /livesim2 router (panics observed).
func FetchMPD(ls *Livesim, url string) *MPDObs { return ObserveMPD(ls.GetRaw(url)) }

// FillTemplate resolves a media template.
func FillTemplate(t, rep string, nr, tm int64) string {
	s := strings.ReplaceAll(t, "$RepresentationID$", rep)
	s = strings.ReplaceAll(s, "$Number$", fmt.Sprint(nr))
	return strings.ReplaceAll(s, "$Time$", fmt.Sprint(tm))
}
