package lib

import (
	"fmt"
	"sort"
)

// PairCover steers the choice of configurations towards pairwise coverage: every pair of values of two
// different configuration families (start time, start number, time-shift buffer, availabilityTimeOffset
// class, addressing mode) is to occur together at least once per group (a group is e.g. a track kind).
// Interactions of two options that are each fine alone are the typical blind spot of independent sampling.
type PairCover struct {
	covered map[string]bool
	groups  map[string]bool
	SegMS   func(c TLCfg) int64 // segment duration used for the offset class; may be nil
}

func NewPairCover() *PairCover {
	return &PairCover{covered: map[string]bool{}, groups: map[string]bool{}}
}

// CfgClasses names the value class of each family of a configuration.
func CfgClasses(c TLCfg, segMS int64) []string {
	start := "start:0"
	switch {
	case c.StartS >= 1000000:
		start = "start:epoch"
	case c.StartS != 0:
		start = "start:small"
	}
	snr := fmt.Sprintf("snr:%d", c.Snr)
	if c.Snr > 1 {
		snr = "snr:>1"
	}
	tsbd := fmt.Sprintf("tsbd:%d", c.Tsbd)
	if c.Tsbd > 1 {
		tsbd = "tsbd:short"
	}
	if c.Tsbd >= 3600 {
		tsbd = "tsbd:long"
	}
	ato := "ato:0"
	switch {
	case c.AtoMS < 0:
		ato = "ato:inf"
	case c.AtoMS > 0 && segMS > 0 && c.AtoMS >= segMS:
		ato = "ato:>=seg"
	case c.AtoMS > 0:
		ato = "ato:<seg"
	}
	extra := "extra:" + c.Extra
	return []string{start, snr, tsbd, ato, "mode:" + c.Mode, extra}
}

func pairsOf(group string, cl []string) []string {
	var out []string
	for i := 0; i < len(cl); i++ {
		for j := i + 1; j < len(cl); j++ {
			out = append(out, group+"|"+cl[i]+"|"+cl[j])
		}
	}
	return out
}

// Pick returns the candidate that covers the most pairs not yet covered in the group, and records it.
func (pc *PairCover) Pick(group string, segMS int64, cands []TLCfg) TLCfg {
	best, bestN := 0, -1
	for i, c := range cands {
		n := 0
		for _, p := range pairsOf(group, CfgClasses(c, segMS)) {
			if !pc.covered[p] {
				n++
			}
		}
		if n > bestN {
			best, bestN = i, n
		}
	}
	pc.Add(group, segMS, cands[best])
	return cands[best]
}

// Add records a configuration that was used without Pick.
func (pc *PairCover) Add(group string, segMS int64, c TLCfg) {
	pc.groups[group] = true
	for _, p := range pairsOf(group, CfgClasses(c, segMS)) {
		pc.covered[p] = true
	}
}

// Summary: number of covered pairs per group, for the evidence file.
func (pc *PairCover) Summary() string {
	per := map[string]int{}
	for p := range pc.covered {
		for g := range pc.groups {
			if len(p) > len(g) && p[:len(g)+1] == g+"|" {
				per[g]++
			}
		}
	}
	var gs []string
	for g := range per {
		gs = append(gs, g)
	}
	sort.Strings(gs)
	s := "pairwise coverage of configuration families (start, snr, tsbd, ato class, mode, extra): "
	for i, g := range gs {
		if i > 0 {
			s += ", "
		}
		s += fmt.Sprintf("%s %d pairs", g, per[g])
	}
	return s
}

// TruncatingAtoMS lists the offsets v (in ms, 0 < v < maxMS) whose decimal form v/1000 is a float64 that,
// multiplied by 1000 again, lies just below v: int(x*1000) truncates them to v-1 while math.Round gives v
// (1.001, 1.005, 2.002, 4.004, ...). Code that converts the offset to milliseconds in two places has to
// agree on them.
func TruncatingAtoMS(maxMS int64) []int64 {
	var out []int64
	for v := int64(1); v < maxMS; v++ {
		x := float64(v) / 1000
		if int64(x*1000) != v {
			out = append(out, v)
		}
	}
	return out
}
