package lib

import (
	"bytes"
	"fmt"
	"net/http"
	"net/http/httptest"
	"time"
)

// WriteEvent is one Write or Flush call on a RecWriter.
type WriteEvent struct {
	UnixMS int64 // wall clock (time.Now().UnixMilli()) when the call was made
	Off    int   // body offset before the call
	N      int   // bytes written (0 for Flush)
	Flush  bool
}

// RecWriter is an http.ResponseWriter + http.Flusher that records the body and timestamps every
// Write and Flush (added for C09: chunked low-latency delivery).
type RecWriter struct {
	Hdr    http.Header
	Code   int
	Body   bytes.Buffer
	Events []WriteEvent
}

func NewRecWriter() *RecWriter { return &RecWriter{Hdr: http.Header{}} }

func (w *RecWriter) Header() http.Header { return w.Hdr }

func (w *RecWriter) WriteHeader(code int) {
	if w.Code == 0 {
		w.Code = code
	}
}

func (w *RecWriter) Write(p []byte) (int, error) {
	if w.Code == 0 {
		w.Code = http.StatusOK
	}
	w.Events = append(w.Events, WriteEvent{UnixMS: time.Now().UnixMilli(), Off: w.Body.Len(), N: len(p)})
	return w.Body.Write(p)
}

func (w *RecWriter) Flush() {
	if w.Code == 0 {
		w.Code = http.StatusOK
	}
	w.Events = append(w.Events, WriteEvent{UnixMS: time.Now().UnixMilli(), Off: w.Body.Len(), Flush: true})
}

// FlushPart is the part of a body delivered between two Flush calls.
type FlushPart struct {
	Data         []byte
	FirstWriteMS int64 // wall clock of the first Write of the part
	FlushMS      int64 // wall clock of the Flush that ended it (0: never flushed)
}

// RecResp is a recorded response.
type RecResp struct {
	Resp
	StartUnixMS int64 // wall clock just before the handler was called
	EndUnixMS   int64 // wall clock when the handler returned
	Events      []WriteEvent
}

// Parts splits the body at the Flush calls. Bytes after the last Flush form a last part with FlushMS 0.
func (r RecResp) Parts() []FlushPart {
	var parts []FlushPart
	start := 0
	first := int64(0)
	for _, e := range r.Events {
		if !e.Flush {
			if first == 0 && e.N > 0 {
				first = e.UnixMS
			}
			continue
		}
		if e.Off > start {
			parts = append(parts, FlushPart{Data: r.Body[start:e.Off], FirstWriteMS: first, FlushMS: e.UnixMS})
		}
		start = e.Off
		first = 0
	}
	if len(r.Body) > start {
		parts = append(parts, FlushPart{Data: r.Body[start:], FirstWriteMS: first})
	}
	return parts
}

// GetRecorded issues a GET to the /livesim2 sub-router (no Recoverer) with a RecWriter.
func (l *Livesim) GetRecorded(url string) (out RecResp) {
	req := httptest.NewRequest("GET", url, nil)
	w := NewRecWriter()
	out.StartUnixMS = time.Now().UnixMilli()
	defer func() {
		out.EndUnixMS = time.Now().UnixMilli()
		if r := recover(); r != nil {
			out.Resp = Resp{Status: 0, Panic: fmt.Sprintf("%s: %v", panicSite(), r)}
			out.Events = w.Events
		}
	}()
	l.Srv.LiveRouter.ServeHTTP(w, req)
	code := w.Code
	if code == 0 {
		code = http.StatusOK
	}
	out.Resp = Resp{Status: code, Header: w.Hdr, Body: w.Body.Bytes()}
	out.Events = w.Events
	return out
}
