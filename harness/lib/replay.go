package lib

import (
	"encoding/json"
	"os"
)

// loadReplayInput reads the "input" member of a replay file written by the driver.
func LoadReplayInput[T any](path string) (T, error) {
	var zero T
	data, err := os.ReadFile(path)
	if err != nil {
		return zero, err
	}
	var wrap struct {
		Input json.RawMessage `json:"input"`
	}
	if err := json.Unmarshal(data, &wrap); err != nil {
		return zero, err
	}
	var v T
	if err := json.Unmarshal(wrap.Input, &v); err != nil {
		return zero, err
	}
	return v, nil
}
