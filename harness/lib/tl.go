package lib

import (
	"crypto/sha256"
	"encoding/hex"
	"fmt"
	"os"
	"path/filepath"
	"regexp"
	"strconv"
	"strings"

	"github.com/Eyevinn/mp4ff/mp4"
)

// TLRep is a representation of a bundled asset together with what is needed to request it.
type TLRep struct {
	*VodRep
	Trex *mp4.TrexBox
	Kind string // video, audio, text, image
	Ext  string // .m4s or .jpg
	Stpp bool
}

// TLAsset is a bundled asset: path below the vodroot, the MPD to use, its representations.
type TLAsset struct {
	Path   string
	MPD    string
	Reps   []*TLRep
	LoopMS int64
	RefTS  int64
	RefDur int64
}

func (a *TLAsset) Rep(id string) *TLRep {
	for _, r := range a.Reps {
		if r.ID == id {
			return r
		}
	}
	return nil
}

func (a *TLAsset) Ref() *TLRep {
	for _, r := range a.Reps {
		if r.Kind == "video" {
			return r
		}
	}
	return nil
}

type repSpec struct{ id, kind string }

var bundled = []struct {
	path, mpd string
	reps      []repSpec
}{
	{"testpic_2s", "Manifest.mpd", []repSpec{{"V300", "video"}, {"A48", "audio"}, {"imsc1_txt_sv", "text"}, {"imsc1_img_en", "text"}, {"thumbs", "image"}}},
	{"testpic_8s", "Manifest.mpd", []repSpec{{"V300", "video"}, {"A48", "audio"}}},
	{"testpic_6s", "Manifest.mpd", []repSpec{{"V300", "video"}, {"A48", "audio"}}},
	{"testpic_alt_seg_dur_stl", "Manifest.mpd", []repSpec{{"V300", "video"}, {"A48", "audio"}}},
	{"WAVE/vectors/cfhd_sets/14.985_29.97_59.94/t1/2022-10-17", "stream.mpd", []repSpec{{"1", "video"}, {"A48", "audio"}}},
	{"WAVE/vectors/cfhd_sets/12.5_25_50/t3/2022-10-17", "stream.mpd", []repSpec{{"1", "video"}}},
}

// LoadBundledAssets parses the bundled VoD assets below vodRoot with the harness's own parser.
func LoadBundledAssets(vodRoot string) ([]*TLAsset, error) {
	var out []*TLAsset
	for _, b := range bundled {
		a := &TLAsset{Path: b.path, MPD: b.mpd}
		for _, rs := range b.reps {
			dir := filepath.Join(vodRoot, b.path, rs.id)
			if rs.kind == "image" {
				r, err := loadThumbs(dir, rs.id)
				if err != nil {
					return nil, err
				}
				a.Reps = append(a.Reps, r)
				continue
			}
			vr, trex, err := LoadVodRep(dir, rs.id)
			if err != nil {
				return nil, fmt.Errorf("%s: %w", dir, err)
			}
			r := &TLRep{VodRep: vr, Trex: trex, Kind: rs.kind, Ext: ".m4s"}
			if rs.kind == "text" {
				r.Stpp = true
			}
			a.Reps = append(a.Reps, r)
		}
		ref := a.Ref()
		if ref == nil {
			return nil, fmt.Errorf("%s: no video", b.path)
		}
		a.RefTS, a.RefDur = ref.Timescale, ref.Duration()
		a.LoopMS = 1000 * ref.Duration() / ref.Timescale
		out = append(out, a)
	}
	return out, nil
}

// loadThumbs builds the table of a thumbnail representation: <nr>.jpg, duration 2 s, timescale 1,
// startNumber 1 (as in Manifest_thumbs.mpd of the bundled asset).
func loadThumbs(dir, id string) (*TLRep, error) {
	entries, err := os.ReadDir(dir)
	if err != nil {
		return nil, err
	}
	vr := &VodRep{ID: id, Dir: dir, Timescale: 1}
	for nr := int64(1); nr <= int64(len(entries)); nr++ {
		data, err := os.ReadFile(filepath.Join(dir, fmt.Sprintf("%d.jpg", nr)))
		if err != nil {
			break
		}
		h := sha256.Sum256(data)
		vr.Segs = append(vr.Segs, VodSeg{File: fmt.Sprintf("%d.jpg", nr), Start: (nr - 1) * 2, End: nr * 2, Nr: nr, Payload: hex.EncodeToString(h[:])})
	}
	return &TLRep{VodRep: vr, Kind: "image", Ext: ".jpg"}, nil
}

// TLCfg is the part of the URL configuration that matters for the timeline.
type TLCfg struct {
	StartS int64  `json:"start"`
	Snr    int64  `json:"snr"`             // -1: not in the URL (default start number)
	Tsbd   int64  `json:"tsbd"`            // -1: not in the URL (default 60)
	AtoMS  int64  `json:"ato_ms"`          // 0: none; -1: inf
	Mode   string `json:"mode"`            // number | tlnr | tlt
	Extra  string `json:"extra,omitempty"` // further URL parts, e.g. "periods_60/"
}

const DefaultStartNr = 0
const DefaultTsbd = 60

func (c TLCfg) EffSnr() int64 {
	if c.Snr < 0 {
		return DefaultStartNr
	}
	return c.Snr
}

func (c TLCfg) EffTsbd() int64 {
	if c.Tsbd < 0 {
		return DefaultTsbd
	}
	return c.Tsbd
}

func (c TLCfg) URLPrefix() string {
	var sb strings.Builder
	if c.StartS != 0 {
		fmt.Fprintf(&sb, "start_%d/", c.StartS)
	}
	if c.Snr >= 0 {
		fmt.Fprintf(&sb, "snr_%d/", c.Snr)
	}
	if c.Tsbd >= 0 {
		fmt.Fprintf(&sb, "tsbd_%d/", c.Tsbd)
	}
	switch {
	case c.AtoMS < 0:
		sb.WriteString("ato_inf/")
	case c.AtoMS > 0:
		fmt.Fprintf(&sb, "ato_%s/", strconv.FormatFloat(float64(c.AtoMS)/1000, 'f', -1, 64))
	}
	switch c.Mode {
	case "tlnr":
		sb.WriteString("segtimelinenr_1/")
	case "tlt":
		sb.WriteString("segtimeline_1/")
	}
	sb.WriteString(c.Extra)
	return sb.String()
}

// CoqCfg prints the configuration as a Timeline.tcfg term.
func (c TLCfg) CoqCfg() string {
	ato := "None"
	if c.AtoMS >= 0 {
		ato = fmt.Sprintf("(Some %d)", c.AtoMS)
	}
	return fmt.Sprintf("{| startS := %d; startNr := %d; tsbdS := %d; ato := %s |}", c.StartS, c.EffSnr(), c.EffTsbd(), ato)
}

// SegURL is the URL of a media segment request.
func SegURL(a *TLAsset, c TLCfg, r *TLRep, segID int64, nowMS int64) string {
	return fmt.Sprintf("/livesim2/%s%s/%s/%d%s?nowMS=%d", c.URLPrefix(), a.Path, r.ID, segID, r.Ext, nowMS)
}

func MPDURL(a *TLAsset, c TLCfg, nowMS int64) string {
	return fmt.Sprintf("/livesim2/%s%s/%s?nowMS=%d", c.URLPrefix(), a.Path, a.MPD, nowMS)
}

// SegObs is the projection of a segment response.
type SegObs struct {
	Status   int    `json:"status"` // 0 = panic
	Panic    string `json:"panic,omitempty"`
	EarlyMS  int64  `json:"early_ms"`
	Tfdt     int64  `json:"tfdt"`
	Seq      int64  `json:"seq"`
	Dur      int64  `json:"dur"`
	SrcIdx   int    `json:"src_idx"` // index of the VoD segment with the same payload, -1 if none
	SrcStart int64  `json:"src_start"`
	Payload  string `json:"-"`
	Body     []byte `json:"-"`
	NSamples int    `json:"nsamples"`
	CType    string `json:"ctype"`
	// FragFault describes the first fragment of a multi-fragment segment that does not carry the
	// segment's sequence number or does not start where the previous fragment ended ("" if none)
	FragFault string `json:"frag_fault,omitempty"`
}

var earlyRe = regexp.MustCompile(`(-?\d+)ms`)

// FetchSeg requests a media segment (without the Recoverer, panics are observed) and projects the response.
func FetchSeg(ls *Livesim, a *TLAsset, c TLCfg, r *TLRep, segID int64, nowMS int64) SegObs {
	resp := ls.GetRaw(SegURL(a, c, r, segID, nowMS))
	return ObserveSeg(resp, r)
}

func ObserveSeg(resp Resp, r *TLRep) SegObs {
	o := SegObs{Status: resp.Status, Panic: resp.Panic, SrcIdx: -1}
	if resp.Panic != "" {
		o.Status = 0
		return o
	}
	o.CType = resp.Header.Get("Content-Type")
	switch resp.Status {
	case 425:
		if m := earlyRe.FindStringSubmatch(string(resp.Body)); m != nil {
			o.EarlyMS, _ = strconv.ParseInt(m[1], 10, 64)
		}
	case 200:
		o.Body = resp.Body
		if r.Kind == "image" {
			h := sha256.Sum256(resp.Body)
			o.Payload = hex.EncodeToString(h[:])
		} else {
			si, err := ParseMediaSegment(resp.Body, r.Trex)
			if err != nil {
				o.Status = -1
				o.Panic = "unparsable body: " + err.Error()
				return o
			}
			o.Tfdt, o.Seq, o.Dur, o.Payload, o.NSamples = si.Tfdt, si.Seq, si.Dur, si.Payload, si.NSamples
			if si.HasSidx && (si.SidxEPT != si.Tfdt || si.SidxTimescale != r.Timescale) {
				o.FragFault = fmt.Sprintf("sidx announces earliest presentation time %d at timescale %d, the segment starts at %d at timescale %d", si.SidxEPT, si.SidxTimescale, si.Tfdt, r.Timescale)
			}
			t := si.Tfdt
			for k := range si.FragTfdt {
				if si.FragSeq[k] != si.Seq {
					o.FragFault = fmt.Sprintf("fragment %d has sequence number %d, the first one %d", k, si.FragSeq[k], si.Seq)
					break
				}
				if si.FragTfdt[k] != t {
					o.FragFault = fmt.Sprintf("fragment %d starts at %d, the previous one ended at %d", k, si.FragTfdt[k], t)
					break
				}
				t += si.FragDur[k]
			}
		}
		for i, s := range r.Segs {
			if s.Payload == o.Payload {
				o.SrcIdx, o.SrcStart = i, s.Start
				break
			}
		}
	}
	return o
}

// LoopS and LoopE are the harness's own statement of where segment n (from availabilityStartTime)
// of the looped source starts and ends (the oracle of C01).
func (r *TLRep) LoopS(n int64) int64 {
	N := int64(len(r.Segs))
	return (n/N)*r.Duration() + r.Segs[n%N].Start
}
func (r *TLRep) LoopE(n int64) int64 {
	N := int64(len(r.Segs))
	return (n/N)*r.Duration() + r.Segs[n%N].End
}
