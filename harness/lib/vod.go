package lib

import (
	"bytes"
	"crypto/sha256"
	"encoding/hex"
	"fmt"
	"os"
	"path/filepath"
	"sort"
	"strconv"
	"strings"

	"github.com/Eyevinn/mp4ff/mp4"
)

// VodSeg is one VoD media segment as parsed by the harness itself (independently of livesim2's loader).
type VodSeg struct {
	File     string
	Start    int64  // tfdt of the first fragment
	End      int64  // Start + sum of sample durations
	Nr       int64  // number in the file name ($Number$ assets) or position+startNumber ($Time$ assets)
	Payload  string // SHA-256 over all sample payloads
	NSamples int
}

// VodRep is the segment table of one representation directory.
type VodRep struct {
	ID        string
	Dir       string
	Timescale int64
	Segs      []VodSeg
	IsAudio   bool
	IsVideo   bool
	Codec     string
}

func (r *VodRep) Duration() int64 {
	if len(r.Segs) == 0 {
		return 0
	}
	return r.Segs[len(r.Segs)-1].End - r.Segs[0].Start
}

// SegInfo parses a media segment: tfdt, total duration, mfhd sequence number, payload hash, sample count.
type SegInfo struct {
	Tfdt       int64
	Dur        int64
	Seq        int64
	Payload    string
	NSamples   int
	NFrags     int
	HasStyp    bool
	SampleDurs []uint32
	// per fragment: decode time, sequence number, duration
	FragTfdt []int64
	FragSeq  []int64
	FragDur  []int64
	// segment index box, if any (as decoded from the bytes served)
	HasSidx       bool
	SidxEPT       int64
	SidxTimescale int64
}

func ParseMediaSegment(data []byte, trex *mp4.TrexBox) (*SegInfo, error) {
	f, err := mp4.DecodeFile(bytes.NewReader(data))
	if err != nil {
		return nil, err
	}
	if len(f.Segments) == 0 {
		return nil, fmt.Errorf("no segment")
	}
	si := &SegInfo{}
	h := sha256.New()
	first := true
	for _, s := range f.Segments {
		if s.Styp != nil {
			si.HasStyp = true
		}
		if s.Sidx != nil && !si.HasSidx {
			si.HasSidx, si.SidxEPT, si.SidxTimescale = true, int64(s.Sidx.EarliestPresentationTime), int64(s.Sidx.Timescale)
		}
		for _, fr := range s.Fragments {
			si.NFrags++
			if first {
				si.Tfdt = int64(fr.Moof.Traf.Tfdt.BaseMediaDecodeTime())
				si.Seq = int64(fr.Moof.Mfhd.SequenceNumber)
				first = false
			}
			samples, err := fr.GetFullSamples(trex)
			if err != nil {
				return nil, err
			}
			si.FragTfdt = append(si.FragTfdt, int64(fr.Moof.Traf.Tfdt.BaseMediaDecodeTime()))
			si.FragSeq = append(si.FragSeq, int64(fr.Moof.Mfhd.SequenceNumber))
			si.FragDur = append(si.FragDur, 0)
			for _, sm := range samples {
				si.FragDur[len(si.FragDur)-1] += int64(sm.Dur)
				si.Dur += int64(sm.Dur)
				si.SampleDurs = append(si.SampleDurs, sm.Dur)
				h.Write(sm.Data)
				si.NSamples++
			}
		}
	}
	si.Payload = hex.EncodeToString(h.Sum(nil))
	return si, nil
}

// LoadVodRep reads init.mp4 and all *.m4s of a representation directory.
func LoadVodRep(dir, id string) (*VodRep, *mp4.TrexBox, error) {
	initData, err := os.ReadFile(filepath.Join(dir, "init.mp4"))
	if err != nil {
		return nil, nil, err
	}
	fi, err := mp4.DecodeFile(bytes.NewReader(initData))
	if err != nil {
		return nil, nil, err
	}
	if fi.Init == nil || fi.Init.Moov == nil {
		return nil, nil, fmt.Errorf("no moov in %s", dir)
	}
	trak := fi.Init.Moov.Trak
	rep := &VodRep{ID: id, Dir: dir, Timescale: int64(trak.Mdia.Mdhd.Timescale)}
	switch trak.Mdia.Hdlr.HandlerType {
	case "soun":
		rep.IsAudio = true
	case "vide":
		rep.IsVideo = true
	}
	var trex *mp4.TrexBox
	if fi.Init.Moov.Mvex != nil {
		trex = fi.Init.Moov.Mvex.Trex
	}
	entries, err := os.ReadDir(dir)
	if err != nil {
		return nil, nil, err
	}
	for _, e := range entries {
		if !strings.HasSuffix(e.Name(), ".m4s") {
			continue
		}
		data, err := os.ReadFile(filepath.Join(dir, e.Name()))
		if err != nil {
			return nil, nil, err
		}
		si, err := ParseMediaSegment(data, trex)
		if err != nil {
			return nil, nil, fmt.Errorf("%s/%s: %w", dir, e.Name(), err)
		}
		nr, _ := strconv.ParseInt(strings.TrimSuffix(e.Name(), ".m4s"), 10, 64)
		rep.Segs = append(rep.Segs, VodSeg{File: e.Name(), Start: si.Tfdt, End: si.Tfdt + si.Dur, Nr: nr, Payload: si.Payload, NSamples: si.NSamples})
	}
	sort.Slice(rep.Segs, func(i, j int) bool { return rep.Segs[i].Start < rep.Segs[j].Start })
	return rep, trex, nil
}

// CoqRep prints the segment table as a Timeline.rep term. nrs gives the Nr field per segment.
func CoqRep(r *VodRep) string {
	var segs []string
	for _, s := range r.Segs {
		segs = append(segs, fmt.Sprintf("{| st := %d; en := %d; snr := %d |}", s.Start, s.End, s.Nr))
	}
	return fmt.Sprintf("{| segs := [%s]; ts := %d |}", strings.Join(segs, "; "), r.Timescale)
}

// FragRec is the record of one moof/mdat pair that the model of genLiveSegment's rewrite works on.
type FragRec struct {
	Seq, Tfdt, MoofSize, TfdtSize, DataOffset int64
	Samples                                   [][4]int64 // dur, size, flags, composition offset
}

// FragRecords decodes a media segment into fragment records.
func FragRecords(data []byte, trex *mp4.TrexBox) ([]FragRec, error) {
	f, err := mp4.DecodeFile(bytes.NewReader(data))
	if err != nil {
		return nil, err
	}
	var out []FragRec
	for _, s := range f.Segments {
		for _, fr := range s.Fragments {
			traf := fr.Moof.Traf
			if traf == nil || traf.Trun == nil || traf.Tfdt == nil {
				return nil, fmt.Errorf("incomplete moof")
			}
			rec := FragRec{Seq: int64(fr.Moof.Mfhd.SequenceNumber), Tfdt: int64(traf.Tfdt.BaseMediaDecodeTime()),
				MoofSize: int64(fr.Moof.Size()), TfdtSize: int64(traf.Tfdt.Size()), DataOffset: int64(traf.Trun.DataOffset)}
			samples, err := fr.GetFullSamples(trex)
			if err != nil {
				return nil, err
			}
			for _, sm := range samples {
				rec.Samples = append(rec.Samples, [4]int64{int64(sm.Dur), int64(sm.Size), int64(sm.Flags), int64(sm.CompositionTimeOffset)})
			}
			out = append(out, rec)
		}
	}
	return out, nil
}

// CoqFrags prints fragment records as a list of LiveSeg.frag terms (the bytes of the moof other than the
// tfdt box are all put in front of it: only their sum is observable).
func CoqFrags(recs []FragRec) string {
	var fs []string
	for _, r := range recs {
		var ss []string
		for _, s := range r.Samples {
			ss = append(ss, fmt.Sprintf("(%d, %d, %d, %s)", s[0], s[1], s[2], Zs(s[3])))
		}
		fs = append(fs, fmt.Sprintf("{| f_seq := %d; f_tfdt := %d; f_before := %d; f_after := 0; f_data_offset := %d; f_saio := None; f_samples := [%s] |}",
			r.Seq, r.Tfdt, r.MoofSize-r.TfdtSize, r.DataOffset, strings.Join(ss, "; ")))
	}
	return "[" + strings.Join(fs, ";\n   ") + "]"
}
