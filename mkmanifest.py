#!/usr/bin/env python3
"""Regenerates MANIFEST.json from meta/Cxx.json (one file per claimed property)."""
import json, os, glob
V = os.path.dirname(os.path.abspath(__file__))
checks = []
claimed = set()
for p in sorted(glob.glob(os.path.join(V, "meta", "C*.json"))):
    m = json.load(open(p))
    pid = os.path.basename(p)[:-5]
    if m.get("disabled"):
        continue
    claimed.add(pid)
    checks.append({
        "property_id": pid,
        "quick_cmd": "./check %s --tier quick" % pid,
        "thorough_cmd": "./check %s --tier thorough" % pid,
        "evidence_file": "/verif/evidence/%s.json" % pid,
        "replay_cmd_template": "./check %s --replay {path}" % pid,
        "engine": "coq-proof+correspondence",
        "level_claimed": {"category": "proof", "text": m["level_text"], "design_ref": m.get("design_ref", "DESIGN.md section 5")},
        "level_note": m["level_note"],
        "technique": m["technique"],
    })
na = []
try:
    na = json.load(open(os.path.join(V, "meta", "not_applicable.json")))
except FileNotFoundError:
    pass
na = [x for x in na if x["property_id"] not in claimed]
man = {
    "version": 1,
    "setup_cmd": "./check setup",
    "hooks": {
        "guard": "verif",
        "enable": "go build -tags verif (the harness module /verif/harness replaces the livesim2 module by /repo and is built with -tags verif on every check)",
        "baseline_off_cmd": "cd /repo && go test -vet=off -count=1 -timeout 25m ./...",
        "source_commits": json.load(open(os.path.join(V, "meta", "hook_commits.json"))) if os.path.exists(os.path.join(V, "meta", "hook_commits.json")) else [],
        "add_only": True,
    },
    "engines": [{
        "name": "coq-proof+correspondence",
        "path": "/verif/check",
        "serves_properties": sorted(claimed),
        "kind_free_text": "Coq 8.16.1 theorems (coq/props/Cxx.v) about hand-written executable Gallina models (coq/theories), tied to /repo on every run by a differential correspondence check (Go harness runs the implementation, coqc/vm_compute runs the model on the same inputs) and by translators that regenerate constants from the source (coq/gen)",
    }],
    "checks": checks,
    "not_applicable": na,
    "notes": "Properties are fixed in properties.jsonl. A property not yet listed under checks is still being built (see DESIGN.md section 9); not_applicable is reserved for properties the technique cannot express.",
}
json.dump(man, open(os.path.join(V, "MANIFEST.json"), "w"), indent=1)
print("MANIFEST.json: %d checks" % len(checks))
