#!/usr/bin/env python3
"""Prints the status tables of DESIGN.md section 12 from evidence/*.json, meta/*.json, known_findings.json and seeded/*/meta.json."""
import json, glob, os, re, collections
V = os.path.dirname(os.path.abspath(__file__))
kf = json.load(open(os.path.join(V, "known_findings.json")))
fixed = collections.defaultdict(list)
for line in kf["fixed"]:
    m = re.match(r"fixed: property=(C\d+) (\w+) (.*)", line)
    if m:
        fixed[m.group(1)].append((m.group(2), m.group(3)))
open_f = collections.defaultdict(list)
for f in kf["findings"]:
    open_f[f["property"]].append(f)
print("| property | theorems checked | axioms under the theorems | model cases (quick) | requests/evaluations | open findings | fixed defects |")
print("|---|---|---|---|---|---|---|")
for p in sorted(glob.glob(os.path.join(V, "evidence", "C*.json"))):
    e = json.load(open(p)); c = e["coverage"]; pid = e["property_id"]
    ax = sorted({a for t in c.get("theorems", []) for a in (t.get("axioms") or [])})
    axs = "none (closed under the global context)" if not ax else ", ".join(ax)
    print("| %s | %d/%d | %s | %d | %d | %d | %d |" % (pid, c["discharged"], c["obligations"], axs, c["correspondence"]["cases_evaluated_in_coq"], c["evaluations"], len(open_f[pid]), len(fixed[pid])))
print()
print("Theorems per property (names as in `coq/props/Cxx.v`, each closed by `exact <lemma>` with `Print Assumptions` beneath):\n")
for p in sorted(glob.glob(os.path.join(V, "coq", "props", "C*.v"))):
    names = re.findall(r"^(?:Theorem|Lemma|Corollary|Example)\s+(\w+)", open(p).read(), re.M)
    print("* %s (%d): %s" % (os.path.basename(p)[:-2], len(names), ", ".join("`%s`" % n for n in names)))
print()
print("Open findings:\n")
for pid in sorted(open_f):
    for f in open_f[pid]:
        print("* %s `%s`: %s" % (pid, f["id"], f["what"]))
print()
print("Repaired defects (`fix:` commits in /repo):\n")
for pid in sorted(fixed):
    for h, w in fixed[pid]:
        print("* %s `%s`: %s" % (pid, h, w))
print()
print("Seeded changes:\n")
print("| id | files | detected by |")
print("|---|---|---|")
for d in sorted(glob.glob(os.path.join(V, "seeded", "*", "meta.json")), key=lambda x: (os.path.basename(os.path.dirname(x)).split("-")[0], int(os.path.basename(os.path.dirname(x)).split("-")[1]))):
    m = json.load(open(d))
    print("| %s | %s | %s |" % (m["id"], ", ".join(os.path.basename(f) for f in m["files_changed"]), str(m["detected"]).replace("|", "/").replace("\n", " ")[:400]))
