#!/usr/bin/env python3
"""mutsummary.py: renders mutation/SUMMARY.md from mutation/results.jsonl and the hand-written mutation/classification.json."""
import json, collections, os
V='/verif'
res=[json.loads(l) for l in open(f'{V}/mutation/results.jsonl')]
cl=json.load(open(f'{V}/mutation/classification.json'))
byp=collections.defaultdict(collections.Counter)
for r in res: byp[r['property']][r['status']]+=1
tot=collections.Counter(r['status'] for r in res)
out=['# Mutation sweep (measurement, not a registered check)','',
 'Classical mutants (one token: relational, arithmetic or logical operator, small integer constant, boolean literal) of the functions',
 'named in the anchors of each property, applied one at a time in scratch worktrees of /repo (`mutsweep.py`, generator',
 '`harness/cmd/mutgen`). A mutant that builds is first given to the existing test suite (run twice when it fails, because of',
 'two timing-dependent receiver tests); one that the suite accepts is handed to the property\'s own check',
 '(`VERIF_REPO=<worktree> ./check Cxx`, quick tier). Heads: ' + ', '.join(sorted(set(r.get('head','') for r in res))) + '.','',
 '| property | mutants | no build | killed by the suite | killed by the check | survived |','|---|---|---|---|---|---|']
for p in sorted(byp):
    c=byp[p]; out.append(f"| {p} | {sum(c.values())} | {c['no-build']} | {c['killed-by-suite']} | {c['killed-by-check']} | {c['survived']} |")
out.append(f"| all | {sum(tot.values())} | {tot['no-build']} | {tot['killed-by-suite']} | {tot['killed-by-check']} | {tot['survived']} |")
passed=tot['killed-by-check']+tot['survived']
out+=['',f"Of the {passed} mutants that the test suite accepts, the checks kill {tot['killed-by-check']} ({100*tot['killed-by-check']//max(passed,1)} %).",
 'Survivors, each read by hand (verdicts: *equivalent* - no observable difference; *not-in-property* / *other-property* - observable, but',
 'the property of the sweep says nothing about it (the property that does is named); *model-deviation* - property holds, model now',
 'follows the code more closely; *gap-closed* - the check was strengthened and now kills it):','']
vc=collections.Counter()
for r in res:
    if r['status']!='survived': continue
    k=f"{r['file']}:{r['line']}:{r['orig']}->{r['repl']}"
    v=cl.get(k,['unclassified',''])
    vc[v[0]]+=1
    out.append(f"* {r['property']} `{r['file']}:{r['line']}` `{r['func']}` `{r['orig']}` -> `{r['repl']}`: **{v[0]}** - {v[1]}")
out+=['','Verdicts: '+', '.join(f'{k} {n}' for k,n in vc.most_common())+'.','',
 'Kills by the checks (oracle keys or proof obligations that fired):','']
for r in res:
    if r['status']=='killed-by-check':
        out.append(f"* {r['property']} `{r['file']}:{r['line']}` `{r['func']}` `{r['orig']}` -> `{r['repl']}`: {r.get('detail','')}")
open(f'{V}/mutation/SUMMARY.md','w').write('\n'.join(out)+'\n')
print('\n'.join(out[:40]))
