#!/usr/bin/env python3
"""mutsweep.py [--per-prop N] [--workers K] [--seed S] [props...]

A measurement, not a registered check: classical mutants (relational/arithmetic/logical operator, small integer
constant, boolean literal) of the functions named in the anchors of each property are applied one at a time in scratch
worktrees of /repo's HEAD; a mutant that still builds and still passes the existing test suite is handed to the
property's own check (VERIF_REPO=<worktree> ./check Cxx). Results: mutation/results.jsonl and mutation/SUMMARY.md.
Nothing is committed to /repo; the worktrees are removed at the end."""
import json, os, re, random, subprocess, sys, threading, queue, time, argparse
V = '/verif'; REPO = '/repo'
ENV = dict(os.environ, GOFLAGS='-mod=mod', GOPROXY='off', GOSUMDB='off', GOTOOLCHAIN='local')

def sh(cmd, cwd=None, timeout=None, env=None):
    try:
        p = subprocess.run(cmd, cwd=cwd, env=env or ENV, timeout=timeout, stdout=subprocess.PIPE, stderr=subprocess.STDOUT, text=True, errors='replace')
        return p.returncode, p.stdout
    except subprocess.TimeoutExpired as e:
        return 124, (e.stdout or '') if isinstance(e.stdout, str) else ''

def anchors(prop):
    out = {}
    for m in prop['anchors'].get('mechanism', []) + prop['anchors'].get('state', []):
        for part in re.split(r';| used by | in (?=cmd/|pkg/)', m.get('where', '')):
            f = re.search(r'((?:cmd|pkg)/[\w/.-]+\.go)', part)
            if not f: continue
            funcs = re.findall(r'([A-Za-z_]\w*)\s*\(L\d+', part)
            funcs = [x for x in funcs if x not in ('type',)]
            if funcs:
                out.setdefault(f.group(1), set()).update(funcs)
    return out

def mutants_for(prop):
    ms = []
    for f, funcs in anchors(prop).items():
        path = os.path.join(REPO, f)
        if not os.path.exists(path): continue
        rc, out = sh([os.path.join(V, 'harness/.bin/mutgen'), path, ','.join(sorted(funcs))])
        for line in out.splitlines():
            try:
                m = json.loads(line)
            except Exception:
                continue
            m['file'] = f; m['property'] = prop['id']
            ms.append(m)
    return ms

def worker(k, q, res, lock):
    name = f'mutw{k}'
    sh([os.path.join(V, 'wt.sh'), 'rm', name], cwd=V)
    rc, out = sh([os.path.join(V, 'wt.sh'), 'new', name], cwd=V)
    wt = f'/tmp/wt-{name}'
    while True:
        try:
            m = q.get_nowait()
        except queue.Empty:
            break
        t0 = time.time()
        sh(['git', 'checkout', '-q', '--', '.'], cwd=wt)
        p = os.path.join(wt, m['file'])
        src = open(p, 'rb').read()
        o, l = m['offset'], m['length']
        if src[o:o+l].decode() != m['orig']:
            m['status'] = 'stale-offset'
        else:
            open(p, 'wb').write(src[:o] + m['repl'].encode() + src[o+l:])
            rc, out = sh(['go', 'build', './...'], cwd=wt, timeout=600)
            if rc != 0:
                m['status'] = 'no-build'
            else:
                rc, out = sh(['go', 'test', '-vet=off', '-count=1', './...'], cwd=wt, timeout=900)
                if rc != 0:
                    rc, out = sh(['go', 'test', '-vet=off', '-count=1', './...'], cwd=wt, timeout=900)  # flaky timing tests
                if rc != 0:
                    m['status'] = 'killed-by-suite'
                    m['detail'] = ' '.join(re.findall(r'--- FAIL: (\w+)', out)[:3])
                else:
                    rc, out = sh([os.path.join(V, 'check'), m['property']], cwd=V, timeout=2400, env=dict(ENV, VERIF_REPO=wt))
                    viol = [x for x in out.splitlines() if x.startswith('VIOLATION')]
                    keys = [x[2:].split(' ')[0].rstrip(':') for x in out.splitlines() if x.startswith('# ')]
                    m['status'] = 'killed-by-check' if viol else 'survived'
                    m['detail'] = ', '.join(sorted(set(keys))[:4]) if viol else out.splitlines()[-1][:160] if out.splitlines() else ''
        m['seconds'] = round(time.time() - t0, 1)
        with lock:
            res.append(m)
            with open(os.path.join(V, 'mutation/results.jsonl'), 'a') as fh:
                fh.write(json.dumps(m) + '\n')
            print(f"[{len(res)}] {m['property']} {m['file']}:{m['line']} {m['func']} {m['orig']}->{m['repl']}: {m['status']} ({m['seconds']} s) {m.get('detail','')[:100]}", flush=True)
    sh(['git', 'checkout', '-q', '--', '.'], cwd=wt)
    sh([os.path.join(V, 'wt.sh'), 'rm', name], cwd=V)

def main():
    ap = argparse.ArgumentParser()
    ap.add_argument('--per-prop', type=int, default=10); ap.add_argument('--workers', type=int, default=5); ap.add_argument('--seed', type=int, default=1)
    ap.add_argument('props', nargs='*')
    a = ap.parse_args()
    os.makedirs(os.path.join(V, 'mutation'), exist_ok=True)
    props = [json.loads(l) for l in open(os.path.join(V, 'properties.jsonl'))]
    rnd = random.Random(a.seed)
    q = queue.Queue(); total = 0
    head = subprocess.run(['git', '-C', REPO, 'rev-parse', '--short', 'HEAD'], stdout=subprocess.PIPE, text=True).stdout.strip()
    for p in props:
        if a.props and p['id'] not in a.props: continue
        ms = mutants_for(p)
        rnd.shuffle(ms)
        # spread over functions: round-robin by function
        byf = {}
        for m in ms: byf.setdefault((m['file'], m['func']), []).append(m)
        pick = []
        while len(pick) < a.per_prop and any(byf.values()):
            for k in sorted(byf):
                if byf[k] and len(pick) < a.per_prop:
                    pick.append(byf[k].pop())
        for m in pick:
            m['head'] = head; q.put(m); total += 1
        print(f"{p['id']}: {len(ms)} mutants in {len(byf)} functions, {len(pick)} chosen", flush=True)
    res = []; lock = threading.Lock()
    ts = [threading.Thread(target=worker, args=(k, q, res, lock)) for k in range(a.workers)]
    for t in ts: t.start()
    for t in ts: t.join()
    print('done', total)

if __name__ == '__main__':
    main()
