#!/bin/bash
# seedall.sh [ids...]: runs seedtest.sh for every stored seeded change (seeded/<prop>-<k>), 8 at a time; results in .work/seedres/
cd /verif; mkdir -p .work/seedres
ids=${@:-$(ls seeded)}
printf "%s\n" $ids | xargs -P 4 -I{} sh -c 'p=$(echo {} | cut -d- -f1); ./seedtest.sh $p seeded/{} > .work/seedres/{}.txt 2>&1'
grep -H "RESULT check\|patch-does-not-apply\|suite-FAILS\|unexpected\|3-way" .work/seedres/*.txt
