#!/usr/bin/env python3
"""seedmeta.py [ids]: fills "run" and (when still pending or when it said missed) "detected" of seeded/<id>/meta.json from the
last seedtest result in .work/seedres/<id>.txt (oracle keys / correspondence lines that preceded the VIOLATION lines)."""
import json, os, re, sys, collections
os.chdir('/verif')
ids = sys.argv[1:] or sorted(os.listdir('seeded'))
for i in ids:
    rp = f'.work/seedres/{i}.txt'; mp = f'seeded/{i}/meta.json'
    if not (os.path.exists(rp) and os.path.exists(mp)): continue
    txt = open(rp, errors='replace').read().splitlines()
    m = json.load(open(mp))
    run = [l[len('RESULT '):] for l in txt if l.startswith('RESULT ')]
    keys = collections.Counter()
    for k, l in enumerate(txt):
        if l.startswith('VIOLATION') and k > 0 and txt[k-1].startswith('#'):
            key = txt[k-1][2:].split(' ')[0].rstrip(':')
            keys[key] += 1
    summ = [l for l in txt if re.match(r'C\d\d (quick|thorough):', l)]
    det = any('DETECTED' in r for r in run)
    m['run'] = run
    old = m.get('detected', 'pending')
    if det:
        auto = 'quick tier: ' + ', '.join(f'{k} x{n}' if n > 1 else k for k, n in keys.most_common(6))
        if summ: auto += ' [' + summ[-1][:160] + ']'
        if old == 'pending' or old.startswith('missed') or old.startswith('MISSED') or old.startswith('quick tier: '):
            m['detected'] = auto
    elif old == 'pending':
        m['detected'] = 'missed (see DESIGN.md 11.5)'
    json.dump(m, open(mp, 'w'), indent=1, ensure_ascii=False)
    print(i, '->', m['detected'][:150])
