#!/usr/bin/env python3
"""seedstore.py <prop> <k> <detected-by text>: copies a confirmed seeded change from /tmp/seedout/<prop>/<k> to
/verif/seeded/<prop>-<k>/ and writes meta.json."""
import sys, os, shutil, json, re
prop, k, how = sys.argv[1], sys.argv[2], sys.argv[3]
src = "/tmp/seedout/%s/%s" % (prop, k)
dst = "/verif/seeded/%s-%s" % (prop, k)
os.makedirs(dst, exist_ok=True)
for f in os.listdir(src):
    if f in ("patch.diff", "RUN.txt", "NOTE.md") or f.endswith(".go"):
        shutil.copy(os.path.join(src, f), os.path.join(dst, f))
note = open(os.path.join(src, "NOTE.md"), errors="replace").read()
run = open(os.path.join(src, "RUN.txt")).read().strip()
files = sorted(set(re.findall(r"^\+\+\+ b/(\S+)", open(os.path.join(src, "patch.diff")).read(), re.M)))
meta = {
    "property": prop,
    "id": "%s-%s" % (prop, k),
    "files_changed": files,
    "origin": "written by a fresh sub-agent that was given only the text of the property and a scratch worktree of /repo (nothing from /verif)",
    "summary": " ".join(note.split())[:1500],
    "demonstration": run,
    "confirmed_by_lead": ["patch applies to /repo HEAD in a scratch worktree", "go build ./... succeeds", "go test -vet=off -count=1 ./... passes with the change (existing suite)",
                          "the demonstration fails with the change and passes without it", "VERIF_REPO=<worktree> ./check %s run against the changed tree (seedtest.sh)" % prop],
    "detected": how,
}
json.dump(meta, open(os.path.join(dst, "meta.json"), "w"), indent=1)
print(dst)
