#!/bin/bash
# seedtest.sh <prop> <dir with patch.diff [demo + RUN.txt]> [more props to check...]
# Confirms a seeded change: applies it in a scratch worktree of /repo's HEAD, checks that it builds and that the
# existing test suite still passes, runs the demonstration with and without the change (RUN.txt: "<dest path in repo> :: <command>"),
# then runs ./check <prop> (and further properties) against that worktree. Prints a summary; leaves no worktree behind.
set -u
# at most 6 seed tests at a time over all callers (each one builds, runs the suite and a check with 16 coqc)
mkdir -p /verif/.work
while :; do
  for s in 1 2 3 4 5 6; do
    exec 9>/verif/.work/seedslot.$s
    if flock -n 9; then break 2; fi
  done
  sleep 7
done
prop=$1; dir=$(realpath "$2"); shift 2; props="$prop $*"
name=sv-$prop-$(basename "$dir")-$$
export GOFLAGS=-mod=mod GOPROXY=off GOSUMDB=off GOTOOLCHAIN=local
cd /verif
wt=$(./wt.sh new "$name") || exit 2
res() { echo "RESULT $1"; }
(
cd "$wt"
if git apply --check "$dir/patch.diff" 2>/dev/null; then git apply "$dir/patch.diff";
elif git apply --3way "$dir/patch.diff" >/dev/null 2>&1 && ! git diff --name-only --diff-filter=U | grep -q .; then res "patch applied with 3-way merge (the tree moved on since the change was written)"; git reset -q;
else res "patch-does-not-apply"; git reset -q --hard; touch /tmp/$name.noapply; exit 0; fi
if ! go build ./... >/tmp/$name.build 2>&1; then res "does-not-build"; tail -5 /tmp/$name.build; exit 0; fi
if go test -vet=off -count=1 ./... >/tmp/$name.test 2>&1; then res "suite-passes"; else res "suite-FAILS"; grep -E "^(--- FAIL|FAIL|panic)" /tmp/$name.test | head -5; fi
if [ -f "$dir/RUN.txt" ]; then
  # RUN.txt is free text: "Copy <file> to <dest path> and run ...: go test|run ..."
  dest=$(grep -oE ' to [^ ]+\.go' "$dir/RUN.txt" | head -1 | sed 's/^ to //'); cmd=$(grep -oE '(cd [^&;]+(&&|;) *)?([A-Z_]+=[^ ():;]+ +)*go (test|run) .*' "$dir/RUN.txt" | head -1 | sed -E 's/[[:space:]]+\([^()]*\)[[:space:]]*$//; s/^cd <[a-z ]+> *(&&|;) *//')
  # "run (from cmd/livesim2/app, ...): go test ... ." - a command meant for a sub-directory
  if ! echo "$cmd" | grep -q '^cd ' && from=$(grep -oE '\(from (cmd|pkg)/[A-Za-z0-9_/.-]+' "$dir/RUN.txt" | head -1 | sed 's/^(from //') && [ -n "$from" ] && [ -d "$from" ]; then cmd="cd $from && $cmd"; fi
  demo=$(ls "$dir" | grep -E '_test\.go$|main\.go$' | head -1); [ -f "$dir/demo_test.go" ] && demo=demo_test.go
  if [ -n "$dest" ] && [ -n "$demo" ]; then
    mkdir -p "$(dirname "$dest")"; cp "$dir/$demo" "$dest"
    if timeout 600 bash -o pipefail -c "$cmd" >/tmp/$name.demo1 2>&1; then res "demo-with-change: PASSES (unexpected)"; else res "demo-with-change: fails (expected)"; fi
    git diff > /tmp/$name.applied; git checkout -q -- .
    if timeout 600 bash -o pipefail -c "$cmd" >/tmp/$name.demo0 2>&1; then res "demo-without-change: passes (expected)"; else res "demo-without-change: FAILS (unexpected)"; tail -5 /tmp/$name.demo0; fi
    rm -f "$dest"; git apply /tmp/$name.applied
  fi
fi
)
if [ -f /tmp/$name.noapply ]; then ./wt.sh rm "$name"; rm -f /tmp/$name.*; exit 0; fi
for p in $props; do
  out=$(VERIF_REPO=$wt timeout 1500 ./check $p 2>&1)
  echo "$out" | grep -E "^VIOLATION|^# " | head -4 | cut -c1-400
  echo "$out" | tail -1 | cut -c1-250
  if echo "$out" | grep -q "^VIOLATION"; then res "check $p: DETECTED"; else res "check $p: missed"; fi
done
./wt.sh rm "$name"
rm -f /tmp/$name.*
