#!/bin/sh
# Scratch worktree of /repo for trying breaking edits without touching /repo.
#   ./wt.sh new <name>   -> creates /tmp/wt-<name> (HEAD of /repo + any untracked verif_hooks_*.go of /repo)
#   ./wt.sh rm <name>    -> removes it (and the private mirror the driver made for it)
# Then:  VERIF_REPO=/tmp/wt-<name> ./check Cxx      (works in /verif/.work/alt-*/, leaves /verif's evidence alone)
set -e
d=/tmp/wt-$2
case "$1" in
new)
  git -C /repo worktree remove --force "$d" 2>/dev/null || true
  git -C /repo worktree add --detach "$d" HEAD >/dev/null
  (cd /repo && git ls-files --others --exclude-standard | grep 'verif_hooks' || true) | while read f; do cp "/repo/$f" "$d/$f"; done
  echo "$d";;
rm)
  h=$(python3 -c "import hashlib,os,sys;print(hashlib.sha256(os.path.realpath(sys.argv[1]).encode()).hexdigest()[:10])" "$d")
  rm -rf "/verif/.work/alt-$h"
  git -C /repo worktree remove --force "$d" 2>/dev/null || rm -rf "$d"
  git -C /repo worktree prune;;
*) echo "usage: wt.sh new|rm <name>"; exit 2;;
esac
